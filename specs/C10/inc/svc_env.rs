// ---------------------------------------------------------------------------------------------
// C10/inc/svc_env.rs -- what the SVC optimiser (src/svm/svc.rs) sees of the rest of the crate: stand-ins for the
// Matrix / Kernel traits and for `Cache`, the struct definitions copied from /repo, and the ghost FEASIBILITY
// invariant of the property (dual coefficients in their class' box, summing to zero), arithmetic read as real.
// Needs prelude/realnumber.rs, prelude/basevector.rs, prelude/real.rs.
// ASSUME[A-REAL-SVC] in C10 the contracts of EXTRACTED code (Optimizer::*, SupportVector::new) read T's
//   comparisons and +,-,neg through A-REAL (prelude/real.rs axiom_real): `a < b` on T is `val(a) < val(b)`, no NaN,
//   `a - b` is exact.  In IEEE arithmetic `alpha - step >= cmin` can fail by one ulp; that gap is this assumption.
// ---------------------------------------------------------------------------------------------
// crate::linalg::{BaseMatrix, Matrix} flattened: the optimiser only asks for the shape and for row copies.
// ASSUME[A-MATRIX-ROWS] generic code over M: Matrix<T> is verified against: shape().0 is the row count, get_row(i) needs i < rows and returns row i.
pub trait Matrix<T: RealNumber>: Sized {
    type RowVector: BaseVector<T>;
    spec fn nrows_spec(&self) -> int;
    spec fn row_spec(&self, i: int) -> Self::RowVector;     // (a copy of) row i
//@checkdecl src/linalg/mod.rs :: pub trait BaseMatrix<T: RealNumber>: Clone + Debug :: shape :: fn shape(&self) -> (usize, usize)
    fn shape(&self) -> (s: (usize, usize))
        ensures s.0 == self.nrows_spec();
//@checkdecl src/linalg/mod.rs :: pub trait BaseMatrix<T: RealNumber>: Clone + Debug :: get_row :: fn get_row(&self, row: usize) -> Self::RowVector
    fn get_row(&self, row: usize) -> (r: Self::RowVector)
        requires row < self.nrows_spec(),
        ensures r == self.row_spec(row as int);
}
// crate::svm::Kernel as the optimiser sees it: a total function returning SOME T (kernel values are irrelevant to
// feasibility).  The closed forms of the built-in kernels are the subject of kernels.rs.
// ASSUME[A-KERNEL-TOTAL] Kernel::apply returns normally on the rows it is given (built-in kernels: rows of one matrix have equal length)
pub trait Kernel<T: RealNumber, V: BaseVector<T>> {
//@checkdecl src/svm/mod.rs :: pub trait Kernel<T: RealNumber, V: BaseVector<T>> :: apply :: fn apply(&self, x_i: &V, x_j: &V) -> T
    fn apply(&self, x_i: &V, x_j: &V) -> T;
}

//@struct src/svm/svc.rs :: SVCParameters
//@struct src/svm/svc.rs :: SupportVector
//@struct src/svm/svc.rs :: Optimizer

// ASSUME[A-SVC-CACHE] the kernel cache (HashMap) is opaque: get returns an arbitrary T, insert/drop have no effect on the optimiser
#[verifier::external_body]
#[verifier::reject_recursive_types(T)]
#[verifier::reject_recursive_types(M)]
#[verifier::reject_recursive_types(K)]
//@struct src/svm/svc.rs :: Cache
impl<'a, T: RealNumber, M: Matrix<T>, K: Kernel<T, M::RowVector>> Cache<'a, T, M, K> {
//@checkdecl src/svm/svc.rs :: impl<'a, T: RealNumber, M: Matrix<T>, K: Kernel<T, M::RowVector>> Cache<'a, T, M, K> :: get :: fn get(&mut self, i: &SupportVector<T, M::RowVector>, j: &SupportVector<T, M::RowVector>) -> T
    // ASSUME[A-SVC-CACHE]
    #[verifier::external_body]
    fn get(&mut self, i: &SupportVector<T, M::RowVector>, j: &SupportVector<T, M::RowVector>) -> T { unimplemented!() }
//@checkdecl src/svm/svc.rs :: impl<'a, T: RealNumber, M: Matrix<T>, K: Kernel<T, M::RowVector>> Cache<'a, T, M, K> :: insert :: fn insert(&mut self, key: (usize, usize), value: T)
    // ASSUME[A-SVC-CACHE]
    #[verifier::external_body]
    fn insert(&mut self, key: (usize, usize), value: T) { unimplemented!() }
}

// ---- the property's feasibility clauses ----
// sum of the first n dual coefficients
spec fn sum_alpha<T: RealNumber, V: BaseVector<T>>(s: Seq<SupportVector<T, V>>, n: int) -> real
    decreases n
{
    if n <= 0 { 0real } else { sum_alpha(s, n - 1) + val(s[n - 1].alpha) }
}
// "each lies between 0 and C in the direction of its own sample's class": a sample of the positive class has its
// coefficient in [0, C], one of the other class in [-C, 0]; (cmin, cmax) are those bounds.
spec fn box_of_class<T: RealNumber, V: BaseVector<T>>(v: SupportVector<T, V>, y: T, c: T) -> bool {
    if val(y) > 0real { val(v.cmin) == 0real && val(v.cmax) == val(c) } else { val(v.cmin) == -val(c) && val(v.cmax) == 0real }
}
spec fn in_box<T: RealNumber, V: BaseVector<T>>(v: SupportVector<T, V>) -> bool {
    val(v.cmin) <= val(v.alpha) <= val(v.cmax)
}
// one support vector of a problem with labels `ys` and regularisation parameter `c`
spec fn sv_ok<T: RealNumber, V: BaseVector<T>>(v: SupportVector<T, V>, ys: Seq<T>, c: T) -> bool {
    &&& v.index < ys.len()
    &&& box_of_class(v, ys[v.index as int], c)
    &&& in_box(v)
}
spec fn feasible_seq<T: RealNumber, V: BaseVector<T>>(s: Seq<SupportVector<T, V>>, ys: Seq<T>, c: T) -> bool {
    &&& val(c) > 0real
    &&& forall|i: int| 0 <= i < s.len() ==> sv_ok(#[trigger] s[i], ys, c)
    &&& sum_alpha(s, s.len() as int) == 0real
}
// second invariant (not needed for feasibility): "its support vectors are training rows", each sample at most once
spec fn samples_seq<T: RealNumber, M: Matrix<T>>(s: Seq<SupportVector<T, M::RowVector>>, xm: &M) -> bool {
    &&& forall|i: int| 0 <= i < s.len() ==> (#[trigger] s[i]).index < xm.nrows_spec() && s[i].x == xm.row_spec(s[i].index as int)
    &&& forall|a: int, b: int| 0 <= a < s.len() && 0 <= b < s.len() && a != b ==> (#[trigger] s[a]).index != (#[trigger] s[b]).index
}
impl<'a, T: RealNumber, M: Matrix<T>, K: Kernel<T, M::RowVector>> Optimizer<'a, T, M, K> {
    // every support vector is a row of the training matrix, no sample occurs twice
    spec fn samples_ok(&self) -> bool { samples_seq::<T, M>(self.sv@, self.x) }
    // dual feasibility of the optimiser state
    spec fn feasible(&self) -> bool { feasible_seq(self.sv@, self.y.vview(), self.parameters.c) }
    // the training problem (data, labels, parameters, kernel) is the same
    spec fn same_problem(&self, o: &Self) -> bool {
        self.x == o.x && self.y == o.y && self.parameters == o.parameters && self.kernel == o.kernel
    }
}

// ---- frames and the sum lemma ----
// everything but `grad` is the same (what the gradient sweep of `update` leaves alone)
spec fn same_but_grad<T: RealNumber, V: BaseVector<T>>(a: SupportVector<T, V>, b: SupportVector<T, V>) -> bool {
    a.index == b.index && a.x == b.x && a.alpha == b.alpha && a.cmin == b.cmin && a.cmax == b.cmax && a.k == b.k
}
// everything but `alpha` and `grad` is the same
spec fn same_sample_and_box<T: RealNumber, V: BaseVector<T>>(a: SupportVector<T, V>, b: SupportVector<T, V>) -> bool {
    a.index == b.index && a.x == b.x && a.cmin == b.cmin && a.cmax == b.cmax && a.k == b.k
}
// the coefficient of entry i after `alpha[v1] -= step; alpha[v2] += step` (in this order; v1 == v2 allowed)
spec fn alpha_after<T: RealNumber, V: BaseVector<T>>(s: Seq<SupportVector<T, V>>, v1: int, v2: int, step: T, i: int) -> T {
    let a1 = if i == v1 { s[i].alpha.sub_spec(step) } else { s[i].alpha };
    if i == v2 { a1.add_spec(step) } else { a1 }
}
// moving `step` from entry v1 to entry v2 (alpha_after) leaves the sum unchanged
proof fn lemma_sum_move<T: RealNumber, V: BaseVector<T>>(s0: Seq<SupportVector<T, V>>, s2: Seq<SupportVector<T, V>>, v1: int, v2: int, step: T, n: int)
    requires 0 <= n <= s0.len(), s0.len() == s2.len(),
        forall|i: int| 0 <= i < s0.len() ==> (#[trigger] s2[i]).alpha == alpha_after(s0, v1, v2, step, i),
    ensures sum_alpha(s2, n) == sum_alpha(s0, n) - (if 0 <= v1 < n { val(step) } else { 0real }) + (if 0 <= v2 < n { val(step) } else { 0real }),
    decreases n
{
    axiom_real::<T>();
    if n > 0 { lemma_sum_move(s0, s2, v1, v2, step, n - 1); }
}
// a new entry at the front adds its coefficient to the sum
proof fn lemma_sum_insert_front<T: RealNumber, V: BaseVector<T>>(s: Seq<SupportVector<T, V>>, v: SupportVector<T, V>, n: int)
    requires 0 <= n <= s.len(),
    ensures sum_alpha(s.insert(0, v), n + 1) == val(v.alpha) + sum_alpha(s, n),
    decreases n
{
    let s2 = s.insert(0, v);
    if n > 0 {
        lemma_sum_insert_front(s, v, n - 1);
        assert(s2[n] == s[n - 1]);
    } else {
        assert(s2[0] == v);
        assert(sum_alpha(s2, 0) == 0real);
    }
}
// the same, for every sequence and entry (entry-level hint of `process`)
proof fn lemma_sum_insert_front_all<T: RealNumber, V: BaseVector<T>>()
    ensures forall|s: Seq<SupportVector<T, V>>, v: SupportVector<T, V>|
        sum_alpha(#[trigger] s.insert(0, v), s.len() as int + 1) == val(v.alpha) + sum_alpha(s, s.len() as int),
{
    assert forall|s: Seq<SupportVector<T, V>>, v: SupportVector<T, V>|
        sum_alpha(#[trigger] s.insert(0, v), s.len() as int + 1) == val(v.alpha) + sum_alpha(s, s.len() as int) by {
        lemma_sum_insert_front(s, v, s.len() as int);
    }
}

// ---- what `clean` may do (contract of the stand-in): `n` is `o` with some entries removed, all of them with coefficient 0 ----
spec fn drops_only_zero<T: RealNumber, V: BaseVector<T>>(o: Seq<SupportVector<T, V>>, n: Seq<SupportVector<T, V>>) -> bool
    decreases o.len()
{
    if o.len() == 0 { n.len() == 0 } else {
        ||| (n.len() > 0 && n.last() == o.last() && drops_only_zero(o.drop_last(), n.drop_last()))   // last entry kept
        ||| (val(o.last().alpha) == 0real && drops_only_zero(o.drop_last(), n))                      // last entry dropped
    }
}
proof fn lemma_sum_prefix<T: RealNumber, V: BaseVector<T>>(s1: Seq<SupportVector<T, V>>, s2: Seq<SupportVector<T, V>>, n: int)
    requires 0 <= n <= s1.len(), n <= s2.len(), forall|i: int| 0 <= i < n ==> #[trigger] s1[i] == s2[i],
    ensures sum_alpha(s1, n) == sum_alpha(s2, n),
    decreases n
{
    if n > 0 { lemma_sum_prefix(s1, s2, n - 1); }
}
// ... then feasibility carries over: the sum is the same and every remaining entry was there before
proof fn lemma_drops_only_zero<T: RealNumber, V: BaseVector<T>>(o: Seq<SupportVector<T, V>>, n: Seq<SupportVector<T, V>>, ys: Seq<T>, c: T)
    requires drops_only_zero(o, n),
    ensures
        sum_alpha(n, n.len() as int) == sum_alpha(o, o.len() as int),
        (forall|i: int| 0 <= i < o.len() ==> sv_ok(#[trigger] o[i], ys, c)) ==> (forall|j: int| 0 <= j < n.len() ==> sv_ok(#[trigger] n[j], ys, c)),
        feasible_seq(o, ys, c) ==> feasible_seq(n, ys, c),
    decreases o.len()
{
    if o.len() > 0 {
        let o1 = o.drop_last();
        lemma_sum_prefix(o1, o, o1.len() as int);
        if n.len() > 0 && n.last() == o.last() && drops_only_zero(o1, n.drop_last()) {
            let n1 = n.drop_last();
            lemma_drops_only_zero(o1, n1, ys, c);
            lemma_sum_prefix(n1, n, n1.len() as int);
            if forall|i: int| 0 <= i < o.len() ==> sv_ok(#[trigger] o[i], ys, c) {
                assert forall|i: int| 0 <= i < o1.len() implies sv_ok(#[trigger] o1[i], ys, c) by { assert(o1[i] == o[i]); }
                assert forall|j: int| 0 <= j < n.len() implies sv_ok(#[trigger] n[j], ys, c) by {
                    if j < n1.len() { assert(n[j] == n1[j]); } else { assert(n[j] == o[o.len() - 1]); }
                }
            }
        } else {
            lemma_drops_only_zero(o1, n, ys, c);
            if forall|i: int| 0 <= i < o.len() ==> sv_ok(#[trigger] o[i], ys, c) {
                assert forall|i: int| 0 <= i < o1.len() implies sv_ok(#[trigger] o1[i], ys, c) by { assert(o1[i] == o[i]); }
            }
        }
    }
}
// a subsequence of distinct training rows consists of distinct training rows
proof fn lemma_drops_samples<T: RealNumber, M: Matrix<T>>(o: Seq<SupportVector<T, M::RowVector>>, n: Seq<SupportVector<T, M::RowVector>>, xm: &M)
    requires drops_only_zero(o, n),
    ensures
        forall|j: int| 0 <= j < n.len() ==> o.contains(#[trigger] n[j]),
        samples_seq::<T, M>(o, xm) ==> samples_seq::<T, M>(n, xm),
    decreases o.len()
{
    if o.len() > 0 {
        let o1 = o.drop_last();
        let last = o.len() - 1;
        if n.len() > 0 && n.last() == o.last() && drops_only_zero(o1, n.drop_last()) {
            let n1 = n.drop_last();
            lemma_drops_samples::<T, M>(o1, n1, xm);
            assert forall|j: int| 0 <= j < n.len() implies o.contains(#[trigger] n[j]) by {
                if j < n1.len() {
                    assert(n[j] == n1[j]);
                    let i = choose|i: int| 0 <= i < o1.len() && o1[i] == n1[j];
                    assert(o[i] == o1[i]);
                } else { assert(n[j] == o[last]); }
            }
            if samples_seq::<T, M>(o, xm) {
                assert(samples_seq::<T, M>(o1, xm)) by {
                    assert forall|i: int| 0 <= i < o1.len() implies (#[trigger] o1[i]).index < xm.nrows_spec() && o1[i].x == xm.row_spec(o1[i].index as int) by { assert(o1[i] == o[i]); }
                    assert forall|a: int, b: int| 0 <= a < o1.len() && 0 <= b < o1.len() && a != b implies (#[trigger] o1[a]).index != (#[trigger] o1[b]).index by { assert(o1[a] == o[a] && o1[b] == o[b]); }
                }
                assert forall|i: int| 0 <= i < n.len() implies (#[trigger] n[i]).index < xm.nrows_spec() && n[i].x == xm.row_spec(n[i].index as int) by {
                    let k = choose|k: int| 0 <= k < o.len() && o[k] == n[i];
                }
                assert forall|a: int, b: int| 0 <= a < n.len() && 0 <= b < n.len() && a != b implies (#[trigger] n[a]).index != (#[trigger] n[b]).index by {
                    if a < n1.len() && b < n1.len() { assert(n[a] == n1[a] && n[b] == n1[b]); }
                    else {
                        // one of them is the kept last entry of o, the other comes from o1
                        let c = if a < n1.len() { a } else { b };
                        assert(n[c] == n1[c]);
                        let i = choose|i: int| 0 <= i < o1.len() && o1[i] == n1[c];
                        assert(o[i] == o1[i]);
                        assert(o[i].index != o[last].index);
                    }
                }
            }
        } else {
            lemma_drops_samples::<T, M>(o1, n, xm);
            assert forall|j: int| 0 <= j < n.len() implies o.contains(#[trigger] n[j]) by {
                let i = choose|i: int| 0 <= i < o1.len() && o1[i] == n[j];
                assert(o[i] == o1[i]);
            }
            if samples_seq::<T, M>(o, xm) {
                assert(samples_seq::<T, M>(o1, xm)) by {
                    assert forall|i: int| 0 <= i < o1.len() implies (#[trigger] o1[i]).index < xm.nrows_spec() && o1[i].x == xm.row_spec(o1[i].index as int) by { assert(o1[i] == o[i]); }
                    assert forall|a: int, b: int| 0 <= a < o1.len() && 0 <= b < o1.len() && a != b implies (#[trigger] o1[a]).index != (#[trigger] o1[b]).index by { assert(o1[a] == o[a] && o1[b] == o[b]); }
                }
            }
        }
    }
}
proof fn lemma_drops_samples_all<T: RealNumber, M: Matrix<T>>(xm: &M)
    ensures forall|o: Seq<SupportVector<T, M::RowVector>>, n: Seq<SupportVector<T, M::RowVector>>|
        #[trigger] drops_only_zero(o, n) && samples_seq::<T, M>(o, xm) ==> samples_seq::<T, M>(n, xm),
{
    assert forall|o: Seq<SupportVector<T, M::RowVector>>, n: Seq<SupportVector<T, M::RowVector>>|
        #[trigger] drops_only_zero(o, n) && samples_seq::<T, M>(o, xm) implies samples_seq::<T, M>(n, xm) by {
        lemma_drops_samples::<T, M>(o, n, xm);
    }
}
// the same, for every pair of sequences (entry-level hint of `reprocess` / `finish`)
proof fn lemma_drops_only_zero_all<T: RealNumber, V: BaseVector<T>>(ys: Seq<T>, c: T)
    ensures forall|o: Seq<SupportVector<T, V>>, n: Seq<SupportVector<T, V>>|
        #[trigger] drops_only_zero(o, n) && feasible_seq(o, ys, c) ==> feasible_seq(n, ys, c),
{
    assert forall|o: Seq<SupportVector<T, V>>, n: Seq<SupportVector<T, V>>|
        #[trigger] drops_only_zero(o, n) && feasible_seq(o, ys, c) implies feasible_seq(n, ys, c) by {
        lemma_drops_only_zero(o, n, ys, c);
    }
}
