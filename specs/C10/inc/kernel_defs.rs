// ---------------------------------------------------------------------------------------------
// C10/inc/kernel_defs.rs -- closed forms of the four built-in kernels over the vector views.  The SAME spec fns
// are used by the exec contracts (kernels.rs, arithmetic uninterpreted, A-ABS) and by the symmetry lemmas
// (kernels_symmetric.rs, arithmetic read as real, A-REAL).  Needs vdot (prelude/basevector_full.rs) and
// sq_euclid (prelude/distance_defs.rs).
// ---------------------------------------------------------------------------------------------
// <a, b>
pub open spec fn k_linear<T: RealNumber>(a: Seq<T>, b: Seq<T>) -> T { vdot(a, b, a.len() as int) }
// exp(-gamma * ||a - b||^2)
pub open spec fn k_rbf<T: RealNumber>(gamma: T, a: Seq<T>, b: Seq<T>) -> T {
    gamma.neg_spec().mul_spec(sq_euclid(a, b, a.len() as int)).exp_spec()
}
// (gamma <a, b> + coef0)^degree
pub open spec fn k_poly<T: RealNumber>(degree: T, gamma: T, coef0: T, a: Seq<T>, b: Seq<T>) -> T {
    gamma.mul_spec(vdot(a, b, a.len() as int)).add_spec(coef0).powf_spec(degree)
}
// tanh(gamma <a, b> + coef0)
pub open spec fn k_sigmoid<T: RealNumber>(gamma: T, coef0: T, a: Seq<T>, b: Seq<T>) -> T {
    gamma.mul_spec(vdot(a, b, a.len() as int)).add_spec(coef0).tanh_spec()
}
