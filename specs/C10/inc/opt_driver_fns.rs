// C10/inc/opt_driver_fns.rs -- stand-ins for Optimizer::{clean, permutate} and the contracts of
// Optimizer::{new, reprocess, finish, initialize} (owned by unit opt_drivers).
// To be placed inside `impl Optimizer { .. }` after C10/inc/opt_process_fns.rs.
//@checkdecl src/svm/svc.rs :: impl<'a, T: RealNumber, M: Matrix<T>, K: Kernel<T, M::RowVector>> Optimizer<'a, T, M, K> :: clean :: fn clean(&mut self, cache: &mut Cache<'_, T, M, K>)
    // ASSUME[A-SVC-CLEAN] clean (Vec::retain with a capturing closure) leaves a subsequence of sv that drops only entries whose coefficient is 0
    #[verifier::external_body]
    fn clean(&mut self, cache: &mut Cache<'_, T, M, K>)
        ensures
            final(self).same_problem(old(self)),
            drops_only_zero(old(self).sv@, final(self).sv@),
    { unimplemented!() }

//@checkdecl src/svm/svc.rs :: impl<'a, T: RealNumber, M: Matrix<T>, K: Kernel<T, M::RowVector>> Optimizer<'a, T, M, K> :: permutate :: fn permutate(n: usize) -> Vec<usize>
    // ASSUME[A-SVC-PERMUTATE] permutate(n) (thread_rng shuffle of 0..n) returns SOME vector of sample indices < n: any order, so every visiting order is covered
    #[verifier::external_body]
    fn permutate(n: usize) -> (r: Vec<usize>)
        ensures forall|k: int| 0 <= k < r@.len() ==> r@[k] < n,
    { unimplemented!() }

//@extract src/svm/svc.rs :: impl<'a, T: RealNumber, M: Matrix<T>, K: Kernel<T, M:.:RowVector>> Optimizer<'a, T, M, K> :: new :: ret=r
//@spec
        requires val(parameters.c) > 0real,
        ensures
            r.feasible(), //# new-optimizer-is-feasible
            r.samples_ok(),
            r.sv@.len() == 0, r.x == x, r.y == y, r.parameters == parameters, r.kernel == kernel,
//@end

//@extract src/svm/svc.rs :: impl<'a, T: RealNumber, M: Matrix<T>, K: Kernel<T, M:.:RowVector>> Optimizer<'a, T, M, K> :: reprocess :: ret=r
//@spec
        requires old(self).feasible(),
        ensures
            final(self).feasible(), //# reprocess-preserves-feasibility
            final(self).same_problem(old(self)),
            old(self).samples_ok() ==> final(self).samples_ok(), //# reprocess-keeps-support-vectors-distinct-training-rows
//@enter
        proof { lemma_drops_only_zero_all::<T, M::RowVector>(self.y.vview(), self.parameters.c); lemma_drops_samples_all::<T, M>(self.x); }
//@end

//@extract src/svm/svc.rs :: impl<'a, T: RealNumber, M: Matrix<T>, K: Kernel<T, M:.:RowVector>> Optimizer<'a, T, M, K> :: finish
//@spec
        requires old(self).feasible(),
        ensures
            final(self).feasible(), //# finish-preserves-feasibility
            final(self).same_problem(old(self)),
            old(self).samples_ok() ==> final(self).samples_ok(), //# finish-keeps-support-vectors-distinct-training-rows
//@enter
        proof { lemma_drops_only_zero_all::<T, M::RowVector>(self.y.vview(), self.parameters.c); lemma_drops_samples_all::<T, M>(self.x); }
//@loop 1
            invariant self.feasible(), self.same_problem(old(self)), old(self).samples_ok() ==> self.samples_ok(),
            decreases max_iter
//@end

//@extract src/svm/svc.rs :: impl<'a, T: RealNumber, M: Matrix<T>, K: Kernel<T, M:.:RowVector>> Optimizer<'a, T, M, K> :: initialize
//@spec
        requires
            old(self).feasible(),
            // one label per row (checked by SVC::fit before the optimiser is built)
            old(self).x.nrows_spec() == old(self).y.vview().len(),
        ensures
            final(self).feasible(), //# initialize-preserves-feasibility
            final(self).same_problem(old(self)),
            old(self).samples_ok() ==> final(self).samples_ok(), //# initialize-keeps-support-vectors-distinct-training-rows
//@enter
        proof { T::ops_total(); }
//@loop 1
            invariant
                self.feasible(), self.same_problem(old(self)), old(self).samples_ok() ==> self.samples_ok(),
                self.x.nrows_spec() == self.y.vview().len(), n == self.x.nrows_spec(),
                few == 5, cp <= few, cn <= few,
                T::obeys_eq_spec(), T::obeys_neg_spec(), forall|a: T| #[trigger] a.neg_req(),
//@end
