// C10/inc/opt_process_fns.rs -- Optimizer::process under contract (owned by unit opt_process).
// To be placed inside `impl Optimizer { .. }` after C10/inc/opt_smo_fns.rs; needs SupportVector::new (C10/inc/sv_new.rs).
//@extract src/svm/svc.rs :: impl<'a, T: RealNumber, M: Matrix<T>, K: Kernel<T, M:.:RowVector>> Optimizer<'a, T, M, K> :: process :: ret=r
//@spec
        requires
            old(self).feasible(),
            // called for sample i of the training set: x its row (not used by the proof), y ITS label
            i < old(self).y.vview().len(), y == old(self).y.vview()[i as int],
        ensures
            final(self).feasible(), //# process-preserves-feasibility
            final(self).same_problem(old(self)),
            // if moreover x is row i of the training matrix: the support vectors stay distinct training rows
            old(self).samples_ok() && i < old(self).x.nrows_spec() && x == old(self).x.row_spec(i as int)
                ==> final(self).samples_ok(), //# process-keeps-support-vectors-distinct-training-rows
//@enter
        proof { T::ops_total(); axiom_real::<T>(); lemma_sum_insert_front_all::<T, M::RowVector>(); }
//@loop 1
            invariant *self == *old(self), self.feasible(),
                forall|k: int| 0 <= k < j ==> (#[trigger] self.sv@[k]).index != i, //# process-scan-rules-out-sample-already-present
//@loop 2
            invariant
                T::obeys_sub_assign_spec(), T::obeys_mul_spec(),
                forall|a: T, b: T| #[trigger] a.mul_req(b),
                forall|a: T, b: T| #[trigger] a.sub_assign_req(b),
//@end
