// C10/inc/opt_smo_fns.rs -- Optimizer::select_pair (stand-in) and Optimizer::smo under contract (owned by unit opt_smo).
// To be placed inside `impl Optimizer { .. }` after C10/inc/opt_update_fns.rs.
//@checkdecl src/svm/svc.rs :: impl<'a, T: RealNumber, M: Matrix<T>, K: Kernel<T, M::RowVector>> Optimizer<'a, T, M, K> :: select_pair :: fn select_pair( &mut self, idx_1: Option<usize>, idx_2: Option<usize>, cache: &mut Cache<'_, T, M, K>, ) -> Option<(usize, usize, T)>
    // ASSUME[A-SVC-SELECT-PAIR] select_pair leaves the optimiser unchanged and returns None or a pair of indices < sv.len() (with some kernel value)
    #[verifier::external_body]
    fn select_pair(
        &mut self,
        idx_1: Option<usize>,
        idx_2: Option<usize>,
        cache: &mut Cache<'_, T, M, K>,
    ) -> (r: Option<(usize, usize, T)>)
        ensures
            *final(self) == *old(self),
            r matches Some(p) ==> p.0 < old(self).sv@.len() && p.1 < old(self).sv@.len(),
    { unimplemented!() }

//@extract src/svm/svc.rs :: impl<'a, T: RealNumber, M: Matrix<T>, K: Kernel<T, M:.:RowVector>> Optimizer<'a, T, M, K> :: smo :: ret=r
//@spec
        requires old(self).feasible(),
        ensures
            // whatever pair select_pair hands back, whatever the kernel values and gradients are:
            final(self).feasible(), //# smo-preserves-feasibility
            final(self).same_problem(old(self)),
            final(self).sv@.len() == old(self).sv@.len(),
            forall|i: int| 0 <= i < old(self).sv@.len() ==> same_sample_and_box(#[trigger] final(self).sv@[i], old(self).sv@[i]),
            old(self).samples_ok() ==> final(self).samples_ok(), //# smo-keeps-support-vectors-distinct-training-rows
//@enter
        proof { T::ops_total(); axiom_real::<T>(); }
//@end
