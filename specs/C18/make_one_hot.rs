//@unit tier=quick
//@include prelude/uses.rs
verus! {
//@include prelude/realnumber.rs
//@include prelude/basevector.rs

// C18 (one-hot vector): make_one_hot(idx, n) is the vector of length n that is one at idx and zero elsewhere.
// `V::zeros` is used through the BaseVector trait contract (A-BASEVECTOR-ZEROS).
// definition: the one-hot vector of length n for index idx
pub open spec fn one_hot_seq<T: RealNumber>(idx: int, n: nat) -> Seq<T> {
    Seq::new(n, |i: int| if i == idx { T::one_spec() } else { T::zero_spec() })
}

//@extract src/preprocessing/series_encoder.rs :: - :: make_one_hot :: ret=r
//@spec
    requires
        category_idx < num_categories,
    ensures
        r.vview() == one_hot_seq::<T>(category_idx as int, num_categories as nat), //# one-hot-is-the-indicator-vector
        // the same, clause by clause
        r.vview().len() == num_categories, //# one-hot-has-length-num-categories
        r.vview()[category_idx as int] == T::one_spec(), //# one-hot-is-one-at-index
        forall|i: int| 0 <= i < num_categories && i != category_idx ==> r.vview()[i] == T::zero_spec(), //# one-hot-is-zero-elsewhere
//@end

// an index outside 0..num_categories is a precondition violation of `set` (for Vec<T>: index panic); make_one_hot has
// no `panic!` of its own, so there is no rejection variant.
} // verus!
fn main() {}
