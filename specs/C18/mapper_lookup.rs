//@unit tier=quick
//@include prelude/uses.rs
//@include prelude/hashmap_uses.rs
verus! {
//@include prelude/category_mapper.rs

// C18 (category mapper, part 2): on a well-formed mapper (wf(): established by fit_to_iter, unit mapper_fit)
// category -> index (`get_num`) and index -> category (`get_cat`) are mutually inverse, `get_categories`
// lists the categories by index and `num_categories` is their number.
impl<C> CategoryMapper<C>
where
    C: Hash + Eq + Clone,
{
//@extract src/preprocessing/series_encoder.rs :: impl<C> CategoryMapper<C> where C: Hash + Eq + Clone, :: num_categories :: ret=r
//@spec
        requires
            self.wf(),
        ensures
            r == self.categories@.len(), //# num-categories-is-number-of-categories
//@end

//@extract src/preprocessing/series_encoder.rs :: impl<C> CategoryMapper<C> where C: Hash + Eq + Clone, :: get_num :: ret=r
//@spec
        requires
            self.wf(),
            obeys_key_model::<C>(),
        ensures
            // Some(i) exactly for the i with categories[i] == category; None exactly for an unknown category
            match r {
                Some(i) => *i < self.categories@.len() && self.categories@[*i as int] == *category,
                None => !self.categories@.contains(*category),
            }, //# get-num-is-inverse-of-get-cat
            forall|i: int| 0 <= i < self.categories@.len() && self.categories@[i] == *category ==> r == Some(&(i as usize)), //# get-num-finds-the-index
//@enter
        proof {
            if self.categories@.contains(*category) {
                let k = choose|k: int| 0 <= k < self.categories@.len() && self.categories@[k] == *category;
                assert(self.categories@[k] == *category);
            }
        }
//@end

//@extract src/preprocessing/series_encoder.rs :: impl<C> CategoryMapper<C> where C: Hash + Eq + Clone, :: get_cat :: ret=r
//@spec
        requires
            self.wf(),
            num < self.categories@.len(),
        ensures
            *r == self.categories@[num as int], //# get-cat-is-category-at-index
//@end

//@extract src/preprocessing/series_encoder.rs :: impl<C> CategoryMapper<C> where C: Hash + Eq + Clone, :: get_categories :: ret=r
//@spec
        ensures
            r@ == self.categories@, //# get-categories-lists-by-index
//@end
}

// The two round trips, derived from the contracts above only (client code: our text, not from /repo).
fn roundtrip_index<C: Hash + Eq + Clone>(m: &CategoryMapper<C>, i: usize)
    requires
        m.wf(),
        obeys_key_model::<C>(),
        i < m.categories@.len(),
{
    let c = m.get_cat(i);
    let r = m.get_num(c);
    assert(r == Some(&i));   // get_num(get_cat(i)) == i
}

fn roundtrip_category<C: Hash + Eq + Clone>(m: &CategoryMapper<C>, c: &C)
    requires
        m.wf(),
        obeys_key_model::<C>(),
{
    match m.get_num(c) {
        Some(i) => {
            let i0 = *i;
            assert(i0 < m.num_categories);
            let c2 = m.get_cat(i0);
            assert(*c2 == *c);   // get_cat(get_num(c)) == c
        }
        None => {
            assert(!m.categories@.contains(*c));   // only unknown categories have no index
        }
    }
}
} // verus!
fn main() {}
