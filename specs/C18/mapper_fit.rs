//@unit tier=quick
//@include prelude/uses.rs
//@include prelude/hashmap_uses.rs
verus! {
//@include prelude/category_mapper.rs
//@include prelude/dedup_first.rs

// C18 (category mapper, part 1): `fit_to_iter` numbers the categories in order of first appearance and
// establishes the representation invariant `wf()` on which get_num / get_cat (unit mapper_lookup) rely.
//
// "The sequence the iterator yields" is vstd's prophetic `categories.remaining()` (std_specs::iter::IteratorSpec);
// the preconditions `obeys_prophetic_iter_laws()` / `decrease() is Some` say that `next` follows that sequence
// and that the iterator is finite with a termination measure (true for slice/Vec/range iterators and `map`/`cloned`
// over them, see `fit_from_vec` below).  In the loop invariant, `VERUS_ghost_iter` is the name Verus' `for`
// desugaring gives the ghost loop state (VerusForLoopWrapper) when the source does not name it; `.index@` is the
// number of items consumed so far.
impl<C> CategoryMapper<C>
where
    C: Hash + Eq + Clone,
{
//@extract src/preprocessing/series_encoder.rs :: impl<C> CategoryMapper<C> where C: Hash + Eq + Clone, :: fit_to_iter :: ret=r
//@spec
        requires
            obeys_key_model::<C>(),
            clone_is_identity::<C>(),
            categories.obeys_prophetic_iter_laws(),
            categories.decrease() is Some,
        ensures
            r.wf(), //# fit-establishes-mutually-inverse-maps
            r.categories@ == dedup_first(categories.remaining()), //# fit-numbers-in-order-of-first-appearance
//@loop 1
            invariant
                obeys_key_model::<C>(),
                clone_is_identity::<C>(),
                VERUS_ghost_iter.iter.obeys_prophetic_iter_laws(),
                VERUS_ghost_iter.seq() == categories.remaining(),
                categories.remaining().take(categories.remaining().len() as int) =~= categories.remaining(),   // used on exit: the whole sequence is consumed
                // the abstraction: the categories found so far are the consumed prefix with later duplicates removed,
                unique_lables@ == dedup_first(categories.remaining().take(VERUS_ghost_iter.index@)), //# inv-categories-are-prefix-deduplicated
                // the counter is the number of categories found so far,
                category_num == unique_lables@.len(), //# inv-counter-is-number-of-categories
                // and map / vector are mutually inverse
                unique_lables@.no_duplicates(), //# inv-no-duplicate-categories
                forall|c: C| #![trigger category_map@.contains_key(c)] #![trigger unique_lables@.contains(c)]
                    category_map@.contains_key(c) <==> unique_lables@.contains(c), //# inv-map-keys-are-the-categories
                forall|i: int| 0 <= i < unique_lables@.len() ==>
                    category_map@.contains_key(#[trigger] unique_lables@[i]) && category_map@[unique_lables@[i]] == i, //# inv-map-value-is-position
//@loopbody 1
            let ghost old_ul = unique_lables@;
            proof {
                let s = categories.remaining();
                let i = VERUS_ghost_iter.index@;
                assert(0 <= i < s.len());
                assert(l == s[i]);
                assert(s.take(i + 1).drop_last() == s.take(i));
                assert(s.take(i + 1).last() == l);
                // a Vec's length fits usize (for every Vec, in particular the one after the push): the counter cannot overflow
                assert forall|v: Vec<C>| (#[trigger] v@).len() <= usize::MAX by { assert(v@.len() == v.len()); }
            }
//@loopend 1
            proof {
                if unique_lables@ != old_ul {
                    // a new category was appended
                    let ul = old_ul.push(l);
                    assert(unique_lables@ == ul);
                    assert forall|c: C| category_map@.contains_key(c) <==> ul.contains(c) by {
                        if c == l {
                            assert(ul[old_ul.len() as int] == c);
                        } else {
                            if old_ul.contains(c) {
                                let k = choose|k: int| 0 <= k < old_ul.len() && old_ul[k] == c;
                                assert(ul[k] == c);
                            }
                            if ul.contains(c) {
                                let k = choose|k: int| 0 <= k < ul.len() && ul[k] == c;
                                assert(old_ul[k] == c);
                            }
                        }
                    }
                }
            }
//@end
}

// The iterator preconditions are satisfiable and mean what they should: fitting to the items of a Vec
// yields that Vec's contents with later duplicates removed.
fn fit_from_vec<C: Hash + Eq + Clone>(v: Vec<C>) -> (r: CategoryMapper<C>)
    requires
        obeys_key_model::<C>(),
        clone_is_identity::<C>(),
    ensures
        r.wf(),
        r.categories@ == dedup_first(v@),
        // spelled out (lemma_dedup_first_elements): no duplicates, same elements
        r.categories@.no_duplicates(),
        forall|c: C| #[trigger] r.categories@.contains(c) <==> v@.contains(c),
{
    proof { lemma_dedup_first_elements(v@); }
    CategoryMapper::fit_to_iter(v.into_iter())
}
} // verus!
fn main() {}
