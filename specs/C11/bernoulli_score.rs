//@unit tier=quick
//@include prelude/uses.rs
verus! {
//@include prelude/realnumber.rs
//@include prelude/order.rs
//@include prelude/basevector.rs
//@include prelude/matrix_abs2.rs
//@include C11/inc/nb_trait.rs

// C11, Bernoulli variant, "the label predicted ... maximises log prior plus the sum of per-feature log-likelihoods computed
// from those statistics": the three trait methods the MAP decision calls, verified against the NBDistribution contract.
// (BernoulliNB::predict binarises the rows first when a threshold was given: Matrix::binarize, not part of this unit.)
//@struct src/naive_bayes/bernoulli.rs :: BernoulliNBDistribution

// per-feature term: log p if the feature is present (== 1), ln(1 - exp(log p)) otherwise
pub open spec fn bn_term<T: RealNumber>(value: T, lp: T) -> T {
    if value.eq_spec(&T::one_spec()) { lp } else { T::one_spec().sub_spec(lp.exp_spec()).ln_spec() }
}
// sum_{f < n} bn_term(row[f], log_prob[f]), accumulated from zero in feature order
pub open spec fn bn_ll<T: RealNumber>(row: Seq<T>, lp: Seq<T>, n: int) -> T
    decreases n
{
    if n <= 0 { T::zero_spec() } else { bn_ll(row, lp, n - 1).add_spec(bn_term(row[n - 1], lp[n - 1])) }
}

impl<T: RealNumber> BernoulliNBDistribution<T> {
    // established by fit: one prior and one row of n_features log-probabilities per class
    spec fn wf(&self) -> bool {
        &&& self.class_priors@.len() == self.class_labels@.len()
        &&& self.feature_log_prob@.len() == self.class_labels@.len()
        &&& forall|c: int| 0 <= c < self.feature_log_prob@.len() ==> (#[trigger] self.feature_log_prob@[c])@.len() == self.n_features
    }
}

impl<T: RealNumber> NBDistribution<T> for BernoulliNBDistribution<T> {
    spec fn nb_wf(&self) -> bool { self.wf() }
    spec fn row_ok(&self, row: Seq<T>) -> bool { row.len() == self.n_features }
    spec fn classes_spec(&self) -> Seq<T> { self.class_labels@ }
    spec fn prior_spec(&self, class_index: int) -> T { self.class_priors@[class_index] }
    spec fn log_likelihood_spec(&self, class_index: int, row: Seq<T>) -> T {
        bn_ll(row, self.feature_log_prob@[class_index]@, row.len() as int)
    }
//@extract src/naive_bayes/bernoulli.rs :: impl<T: RealNumber, M: Matrix<T>> NBDistribution<T, M> for BernoulliNBDistribution<T> :: prior :: ret=r
//@spec
        ensures r == self.class_priors@[class_index as int], //# bernoulli-prior-is-the-stored-class-prior
//@end
//@extract src/naive_bayes/bernoulli.rs :: impl<T: RealNumber, M: Matrix<T>> NBDistribution<T, M> for BernoulliNBDistribution<T> :: log_likelihood :: ret=r sub=log_likelihood(=>log_likelihood<M:Matrix<T>>(
//@spec
        ensures r == bn_ll(j.vview(), self.feature_log_prob@[class_index as int]@, self.n_features as int), //# bernoulli-log-likelihood-is-sum-of-log-p-or-log-one-minus-p
//@enter
        proof { T::ops_total(); }
//@loop 1
            invariant
                T::obeys_add_assign_spec(), T::obeys_sub_spec(), T::obeys_eq_spec(),
                forall|a: T, b: T| #[trigger] a.sub_req(b),
                forall|a: T, b: T| #[trigger] a.add_assign_req(b),
                forall|a: T, b: T| *(#[trigger] a.add_assign_spec(b)) == a.add_spec(b),
                self.wf(), class_index < self.class_labels@.len(), j.vview().len() == self.n_features,
                likelihood == bn_ll(j.vview(), self.feature_log_prob@[class_index as int]@, feature as int), //# inv-partial-sum-of-bernoulli-terms
//@loopbody 1
            proof { T::ops_total(); }   // all operator facts inside the body (robust against `x += y` <-> `x = x + y` rewrites)
//@end
//@extract src/naive_bayes/bernoulli.rs :: impl<T: RealNumber, M: Matrix<T>> NBDistribution<T, M> for BernoulliNBDistribution<T> :: classes :: ret=r
//@spec
        ensures r@ == self.class_labels@, //# bernoulli-classes-are-the-stored-labels
//@end
}
} // verus!
fn main() {}
