// ---------------------------------------------------------------------------------------------
// C11/inc/nb_trait.rs -- stand-in for crate::naive_bayes::NBDistribution<T, M> (pub(crate) trait of src/naive_bayes/mod.rs).
// Verus forbids `requires` on trait-impl methods, so the trait methods carry the contract in terms of spec fns every
// implementor defines (same scheme as prelude/distance.rs):
//   nb_wf()                         representation invariant of a fitted distribution (shapes of the statistics tables)
//   row_ok(row)                     the row is in the domain of log_likelihood (length, values convertible)
//   classes_spec()                  the class labels, in class-index order
//   prior_spec(c)                   the prior the MAP decision uses for class index c
//   log_likelihood_spec(c, row)     the closed form (fold over the features) of the log-likelihood of `row` under class c
// The MAP decision BaseNaiveBayes::predict (not a Verus unit: map/enumerate/max_by closures) scores class c of row x by
//   log_likelihood(c, x) + prior(c).ln()   -- bounded harnesses kani/c11_nb_predict.rs.
// The matrix type parameter M of the real trait (`trait NBDistribution<T: RealNumber, M: Matrix<T>>`) is used by one method only
// (`j: &M::RowVector`); here it is a parameter of that METHOD instead of the trait: with M on the trait, Verus cannot type an
// `ensures` written on an implementing method (rustc E0283/E0284 "type annotations needed": M is not determined by Self and
// the signatures), and without impl-level `ensures` the vacuity canaries cannot be run.  Implementors are extracted with
// `sub=log_likelihood(=>log_likelihood<M:Matrix<T>>(` (signature only; bodies untouched).
// Needs prelude/realnumber.rs, prelude/basevector.rs, prelude/matrix_abs2.rs.
// ---------------------------------------------------------------------------------------------
trait NBDistribution<T: RealNumber>: Sized {
    spec fn nb_wf(&self) -> bool;
    spec fn row_ok(&self, row: Seq<T>) -> bool;
    spec fn classes_spec(&self) -> Seq<T>;
    spec fn prior_spec(&self, class_index: int) -> T;
    spec fn log_likelihood_spec(&self, class_index: int, row: Seq<T>) -> T;

//@checkdecl src/naive_bayes/mod.rs :: pub(crate) trait NBDistribution<T: RealNumber, M: Matrix<T>> :: prior :: fn prior(&self, class_index: usize) -> T
    fn prior(&self, class_index: usize) -> (r: T)
        requires self.nb_wf(), class_index < self.classes_spec().len(),
        ensures r == self.prior_spec(class_index as int); //# prior-is-the-stored-class-prior
//@checkdecl src/naive_bayes/mod.rs :: pub(crate) trait NBDistribution<T: RealNumber, M: Matrix<T>> :: log_likelihood :: fn log_likelihood(&self, class_index: usize, j: &M::RowVector) -> T
    fn log_likelihood<M: Matrix<T>>(&self, class_index: usize, j: &M::RowVector) -> (r: T)
        requires self.nb_wf(), class_index < self.classes_spec().len(), self.row_ok(j.vview()),
        ensures r == self.log_likelihood_spec(class_index as int, j.vview()); //# log-likelihood-is-the-sum-over-features-of-the-per-feature-terms
//@checkdecl src/naive_bayes/mod.rs :: pub(crate) trait NBDistribution<T: RealNumber, M: Matrix<T>> :: classes :: fn classes(&self) -> &Vec<T>
    fn classes(&self) -> (r: &Vec<T>)
        ensures r@ == self.classes_spec(); //# classes-are-the-stored-class-labels
}
