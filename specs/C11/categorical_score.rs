//@unit tier=quick
//@include prelude/uses.rs
verus! {
//@include prelude/realnumber.rs
//@include prelude/order.rs
//@include prelude/basevector.rs
//@include prelude/matrix_abs2.rs
//@include C11/inc/nb_trait.rs

// C11, categorical variant, "the label predicted for any row whose values occurred in training ... maximises log prior plus
// the sum of per-feature log-likelihoods computed from those statistics": the three trait methods the MAP decision calls.
//@struct src/naive_bayes/categorical.rs :: CategoricalNBDistribution

// the category a feature value stands for: floor, then conversion to usize (row_ok: the conversion succeeds)
pub open spec fn cat_of<T: RealNumber>(v: T) -> int { v.floor_spec().to_usize_spec()->Some_0 as int }

// sum_{f < n} coef[f][c][cat_of(row[f])], accumulated from zero in feature order
pub open spec fn cat_ll<T: RealNumber>(row: Seq<T>, coef: Seq<Vec<Vec<T>>>, c: int, n: int) -> T
    decreases n
{
    if n <= 0 { T::zero_spec() } else { cat_ll(row, coef, c, n - 1).add_spec(coef[n - 1]@[c]@[cat_of(row[n - 1])]) }
}
// every one of the first n feature values is a category the table of class c has an entry for
// (true for every value that occurred in training: fit sizes the tables by the largest value of the column + 1)
pub open spec fn cat_known<T: RealNumber>(row: Seq<T>, coef: Seq<Vec<Vec<T>>>, c: int, n: int) -> bool {
    forall|f: int| 0 <= f < n ==> cat_of(#[trigger] row[f]) < coef[f]@[c]@.len()
}

impl<T: RealNumber> CategoricalNBDistribution<T> {
    // established by fit: one prior per class, one table per feature, one table row per class
    spec fn wf(&self) -> bool {
        &&& self.class_priors@.len() == self.class_labels@.len()
        &&& self.coefficients@.len() == self.n_features
        &&& forall|f: int| 0 <= f < self.coefficients@.len() ==> (#[trigger] self.coefficients@[f])@.len() == self.class_labels@.len()
    }
}

impl<T: RealNumber> NBDistribution<T> for CategoricalNBDistribution<T> {
    spec fn nb_wf(&self) -> bool { self.wf() }
    spec fn row_ok(&self, row: Seq<T>) -> bool {
        &&& row.len() == self.n_features
        &&& forall|f: int| 0 <= f < row.len() ==> (#[trigger] row[f]).floor_spec().to_usize_spec() is Some
    }
    spec fn classes_spec(&self) -> Seq<T> { self.class_labels@ }
    spec fn prior_spec(&self, class_index: int) -> T { self.class_priors@[class_index] }
    // a row with a category unseen in training gets log-likelihood ZERO under every class (what the code does; such rows are
    // outside the property's "any row whose values occurred in training")
    spec fn log_likelihood_spec(&self, class_index: int, row: Seq<T>) -> T {
        if cat_known(row, self.coefficients@, class_index, row.len() as int) {
            cat_ll(row, self.coefficients@, class_index, row.len() as int)
        } else {
            T::zero_spec()
        }
    }
//@extract src/naive_bayes/categorical.rs :: impl<T: RealNumber, M: Matrix<T>> NBDistribution<T, M> for CategoricalNBDistribution<T> :: prior :: ret=r
//@spec
        ensures r == self.class_priors@[class_index as int], //# categorical-prior-is-the-stored-class-prior
//@end
//@extract src/naive_bayes/categorical.rs :: impl<T: RealNumber, M: Matrix<T>> NBDistribution<T, M> for CategoricalNBDistribution<T> :: log_likelihood :: ret=r sub=log_likelihood(=>log_likelihood<M:Matrix<T>>(
//@spec
        ensures
            // the property's case: every value of the row is a known category
            cat_known(j.vview(), self.coefficients@, class_index as int, self.n_features as int)
                ==> r == cat_ll(j.vview(), self.coefficients@, class_index as int, self.n_features as int), //# categorical-log-likelihood-is-sum-of-the-coefficients-of-the-row-s-categories
            !cat_known(j.vview(), self.coefficients@, class_index as int, self.n_features as int) ==> r == T::zero_spec(),
//@enter
        proof { T::ops_total(); }
//@loop 1
            invariant
                T::obeys_add_assign_spec(),
                forall|a: T, b: T| #[trigger] a.add_assign_req(b),
                forall|a: T, b: T| *(#[trigger] a.add_assign_spec(b)) == a.add_spec(b),
                self.wf(), class_index < self.class_labels@.len(),
                j.vview().len() == self.n_features,
                forall|f: int| 0 <= f < j.vview().len() ==> (#[trigger] j.vview()[f]).floor_spec().to_usize_spec() is Some,
                cat_known(j.vview(), self.coefficients@, class_index as int, feature as int), //# inv-features-seen-so-far-are-known-categories
                likelihood == cat_ll(j.vview(), self.coefficients@, class_index as int, feature as int), //# inv-partial-sum-of-category-coefficients
//@loopbody 1
            proof { T::ops_total(); }   // all operator facts inside the body (robust against `x += y` <-> `x = x + y` rewrites)
//@end
//@extract src/naive_bayes/categorical.rs :: impl<T: RealNumber, M: Matrix<T>> NBDistribution<T, M> for CategoricalNBDistribution<T> :: classes :: ret=r
//@spec
        ensures r@ == self.class_labels@, //# categorical-classes-are-the-stored-labels
//@end
}
} // verus!
fn main() {}
