//@unit tier=quick
//@include prelude/uses.rs
verus! {
//@include prelude/realnumber.rs
//@include prelude/order.rs
//@include prelude/basevector.rs
//@include prelude/matrix_abs2.rs
//@include C11/inc/nb_trait.rs

// C11, Gaussian variant, "the label predicted ... maximises log prior plus the sum of per-feature log-likelihoods computed
// from those statistics": the three trait methods the MAP decision calls and the Gaussian log-density they use.
//@struct src/naive_bayes/gaussian.rs :: GaussianNBDistribution

// log N(value; mean, variance) as the code evaluates it:  -((value-mean)^2 / (2 var)) - ln(2 pi)/2 - ln(var)/2
// (pi = the conversion of std::f64::consts::PI; powf, ln uninterpreted)
pub open spec fn gauss_lp<T: RealNumber>(value: T, mean: T, variance: T, pi: T) -> T {
    value.sub_spec(mean).powf_spec(T::two_spec()).div_spec(T::two_spec().mul_spec(variance)).neg_spec()
        .sub_spec(T::two_spec().mul_spec(pi).ln_spec().div_spec(T::two_spec()))
        .sub_spec(variance.ln_spec().div_spec(T::two_spec()))
}
// ASSUME[C11-STD-F64-PI] the std constant core::f64::consts::PI is a fixed f64 value, named pi_f64() in specifications
//   (Verus cannot read an exec-mode std const in spec code; nothing is assumed about the value)
pub uninterp spec fn pi_f64() -> f64;
// ASSUME[C11-STD-F64-PI] reading the constant yields that value
pub assume_specification [ core::f64::consts::PI ] -> (r: f64) ensures r == pi_f64();
pub open spec fn pi_spec<T: RealNumber>() -> T { T::from_spec::<f64>(pi_f64()) }

// sum_{f < n} gauss_lp(row[f], theta[f], var[f]), accumulated from zero in feature order
pub open spec fn gauss_ll<T: RealNumber>(row: Seq<T>, theta: Seq<T>, var: Seq<T>, n: int) -> T
    decreases n
{
    if n <= 0 { T::zero_spec() } else { gauss_ll(row, theta, var, n - 1).add_spec(gauss_lp(row[n - 1], theta[n - 1], var[n - 1], pi_spec::<T>())) }
}

impl<T: RealNumber> GaussianNBDistribution<T> {
    // established by fit: one prior, one row of means and one row of variances per class
    spec fn wf(&self) -> bool {
        &&& self.class_priors@.len() == self.class_labels@.len()
        &&& self.theta@.len() == self.class_labels@.len()
        &&& self.var@.len() == self.class_labels@.len()
        &&& forall|c: int| 0 <= c < self.theta@.len() ==> (#[trigger] self.theta@[c])@.len() == self.nf()
        &&& forall|c: int| 0 <= c < self.var@.len() ==> (#[trigger] self.var@[c])@.len() == self.nf()
    }
    // number of features (the struct does not store it): the length of the first row of means
    spec fn nf(&self) -> int { if self.theta@.len() > 0 { self.theta@[0]@.len() as int } else { 0 } }

//@extract src/naive_bayes/gaussian.rs :: impl<T: RealNumber> GaussianNBDistribution<T> :: calculate_log_probability :: ret=r
//@spec
        ensures r == gauss_lp(value, mean, variance, pi_spec::<T>()), //# gaussian-log-density-formula
//@enter
        proof { T::ops_total(); }
//@end
}

impl<T: RealNumber> NBDistribution<T> for GaussianNBDistribution<T> {
    spec fn nb_wf(&self) -> bool { self.wf() }
    spec fn row_ok(&self, row: Seq<T>) -> bool { row.len() == self.nf() }
    spec fn classes_spec(&self) -> Seq<T> { self.class_labels@ }
    spec fn prior_spec(&self, class_index: int) -> T { self.class_priors@[class_index] }
    spec fn log_likelihood_spec(&self, class_index: int, row: Seq<T>) -> T {
        gauss_ll(row, self.theta@[class_index]@, self.var@[class_index]@, row.len() as int)
    }
//@extract src/naive_bayes/gaussian.rs :: impl<T: RealNumber, M: Matrix<T>> NBDistribution<T, M> for GaussianNBDistribution<T> :: prior :: ret=r
//@spec
        ensures r == self.class_priors@[class_index as int], //# gaussian-prior-is-the-stored-class-prior
//@end
//@extract src/naive_bayes/gaussian.rs :: impl<T: RealNumber, M: Matrix<T>> NBDistribution<T, M> for GaussianNBDistribution<T> :: log_likelihood :: ret=r sub=log_likelihood(=>log_likelihood<M:Matrix<T>>(
//@spec
        ensures r == gauss_ll(j.vview(), self.theta@[class_index as int]@, self.var@[class_index as int]@, self.nf()), //# gaussian-log-likelihood-is-sum-of-log-densities-at-the-class-mean-and-variance
//@enter
        proof { T::ops_total(); }
//@loop 1
            invariant
                T::obeys_add_assign_spec(),
                forall|a: T, b: T| #[trigger] a.add_assign_req(b),
                forall|a: T, b: T| *(#[trigger] a.add_assign_spec(b)) == a.add_spec(b),
                self.wf(), class_index < self.class_labels@.len(), j.vview().len() == self.nf(),
                likelihood == gauss_ll(j.vview(), self.theta@[class_index as int]@, self.var@[class_index as int]@, feature as int), //# inv-partial-sum-of-gaussian-log-densities
//@loopbody 1
            proof { T::ops_total(); }   // all operator facts inside the body (robust against `x += y` <-> `x = x + y` rewrites)
//@end
//@extract src/naive_bayes/gaussian.rs :: impl<T: RealNumber, M: Matrix<T>> NBDistribution<T, M> for GaussianNBDistribution<T> :: classes :: ret=r
//@spec
        ensures r@ == self.class_labels@, //# gaussian-classes-are-the-stored-labels
//@end
}
} // verus!
fn main() {}
