//@unit tier=quick
// Facts about the Mahalanobis closed form (prelude/mahalanobis_defs.rs, the spec fns of the contract in
// mahalanobis.rs) under idealised real arithmetic (A-REAL), for an ARBITRARY abstract matrix S = sigmaInv:
//   d(a,a) == 0;  the radicand is symmetric in (a,b), and so is d when the radicand is non-negative;
//   if S is the identity matrix (entry values 1 on / 0 off the diagonal) then d == Euclidean distance.
// Not here: non-negativity of the radicand (needs S positive semi-definite, i.e. facts about the constructors).
//@include prelude/uses.rs
verus! {
//@include prelude/realnumber.rs
//@include prelude/real.rs
//@include prelude/matrix_abs.rs
//@include prelude/distance_defs.rs
//@include prelude/mahalanobis_defs.rs

proof fn lemma_root_unique(r1: real, r2: real)
    requires r1 >= 0real, r2 >= 0real, r1 * r1 == r2 * r2,
    ensures r1 == r2,
{
    assert(r1 == r2) by(nonlinear_arith) requires r1 >= 0real, r2 >= 0real, r1 * r1 == r2 * r2;
}
proof fn lemma_root_zero(r: real) requires r * r == 0real ensures r == 0real {
    assert(r == 0real) by(nonlinear_arith) requires r * r == 0real;
}
proof fn lemma_term_zero(s: real, x: real, y: real) requires x == 0real || y == 0real || s == 0real ensures s * x * y == 0real {
    assert(s * x * y == 0real) by(nonlinear_arith) requires x == 0real || y == 0real || s == 0real;
}
proof fn lemma_term_neg(s: real, x: real, y: real) ensures s * (-x) * (-y) == s * x * y {
    assert(s * (-x) * (-y) == s * x * y) by(nonlinear_arith);
}
proof fn lemma_term_one(s: real, x: real) requires s == 1real ensures s * x * x == x * x {
    assert(s * x * x == x * x) by(nonlinear_arith) requires s == 1real;
}

pub open spec fn all_zero<T: RealNumber>(z: Seq<T>) -> bool { forall|i: int| 0 <= i < z.len() ==> val(#[trigger] z[i]) == 0real }

// ---- d(a,a) == 0 ----
proof fn lemma_col_zero<T: RealNumber, M: Matrix<T>>(s: &M, z: Seq<T>, j: int, m: int, acc: T)
    requires all_zero(z), 0 <= j < z.len(), m <= z.len(),
    ensures val(maha_col(s, z, j, m, acc)) == val(acc),
    decreases m
{
    axiom_real::<T>();
    if m > 0 {
        lemma_col_zero(s, z, j, m - 1, acc);
        lemma_term_zero(val(s.at(m - 1, j)), val(z[m - 1]), val(z[j]));
    }
}
proof fn lemma_sum_zero<T: RealNumber, M: Matrix<T>>(s: &M, z: Seq<T>, k: int)
    requires all_zero(z), k <= z.len(),
    ensures val(maha_sum(s, z, z.len() as int, k)) == 0real,
    decreases k
{
    axiom_real::<T>();
    if k > 0 {
        lemma_sum_zero(s, z, k - 1);
        lemma_col_zero(s, z, k - 1, z.len() as int, maha_sum(s, z, z.len() as int, k - 1));
    }
}
pub proof fn lemma_mahalanobis_identity<T: RealNumber, M: Matrix<T>>(s: &M, a: Seq<T>)
    ensures val(mahalanobis(s, a, a)) == 0real, //# mahalanobis-vanishes-on-identical-arguments
{
    axiom_real::<T>();
    let z = vec_diff(a, a);
    assert(all_zero(z));
    lemma_sum_zero(s, z, z.len() as int);
    lemma_root_zero(val(mahalanobis(s, a, a)));
}

// ---- symmetry ----
pub open spec fn negated<T: RealNumber>(z: Seq<T>, w: Seq<T>) -> bool {
    z.len() == w.len() && forall|i: int| 0 <= i < z.len() ==> val(#[trigger] w[i]) == -val(z[i])
}
proof fn lemma_col_neg<T: RealNumber, M: Matrix<T>>(s: &M, z: Seq<T>, w: Seq<T>, j: int, m: int, acc: T, acc2: T)
    requires negated(z, w), 0 <= j < z.len(), m <= z.len(), val(acc) == val(acc2),
    ensures val(maha_col(s, z, j, m, acc)) == val(maha_col(s, w, j, m, acc2)),
    decreases m
{
    axiom_real::<T>();
    if m > 0 {
        lemma_col_neg(s, z, w, j, m - 1, acc, acc2);
        lemma_term_neg(val(s.at(m - 1, j)), val(z[m - 1]), val(z[j]));
    }
}
proof fn lemma_sum_neg<T: RealNumber, M: Matrix<T>>(s: &M, z: Seq<T>, w: Seq<T>, k: int)
    requires negated(z, w), k <= z.len(),
    ensures val(maha_sum(s, z, z.len() as int, k)) == val(maha_sum(s, w, z.len() as int, k)),
    decreases k
{
    axiom_real::<T>();
    if k > 0 {
        lemma_sum_neg(s, z, w, k - 1);
        lemma_col_neg(s, z, w, k - 1, z.len() as int, maha_sum(s, z, z.len() as int, k - 1), maha_sum(s, w, z.len() as int, k - 1));
    }
}
pub open spec fn radicand<T: RealNumber, M: Matrix<T>>(s: &M, a: Seq<T>, b: Seq<T>) -> T {
    maha_sum(s, vec_diff(a, b), a.len() as int, a.len() as int)
}
pub proof fn lemma_mahalanobis_symmetric<T: RealNumber, M: Matrix<T>>(s: &M, a: Seq<T>, b: Seq<T>)
    requires a.len() == b.len(),
    ensures
        val(radicand(s, a, b)) == val(radicand(s, b, a)), //# mahalanobis-radicand-symmetric
        val(radicand(s, a, b)) >= 0real ==> val(mahalanobis(s, a, b)) == val(mahalanobis(s, b, a)), //# mahalanobis-symmetric
{
    axiom_real::<T>();
    let z = vec_diff(a, b); let w = vec_diff(b, a);
    assert(negated(z, w));
    lemma_sum_neg(s, z, w, z.len() as int);
    if val(radicand(s, a, b)) >= 0real {
        lemma_root_unique(val(mahalanobis(s, a, b)), val(mahalanobis(s, b, a)));
    }
}

// ---- identity matrix: Mahalanobis == Euclid ----
pub open spec fn is_identity<T: RealNumber, M: Matrix<T>>(s: &M, n: int) -> bool {
    forall|i: int, j: int| 0 <= i < n && 0 <= j < n ==> val(#[trigger] s.at(i, j)) == if i == j { 1real } else { 0real }
}
proof fn lemma_col_identity<T: RealNumber, M: Matrix<T>>(s: &M, z: Seq<T>, j: int, m: int, acc: T)
    requires is_identity(s, z.len() as int), 0 <= j < z.len(), 0 <= m <= z.len(),
    ensures val(maha_col(s, z, j, m, acc)) == val(acc) + if j < m { val(z[j]) * val(z[j]) } else { 0real },
    decreases m
{
    axiom_real::<T>();
    if m > 0 {
        lemma_col_identity(s, z, j, m - 1, acc);
        if m - 1 == j { lemma_term_one(val(s.at(m - 1, j)), val(z[j])); }
        else { lemma_term_zero(val(s.at(m - 1, j)), val(z[m - 1]), val(z[j])); }
    }
}
proof fn lemma_sum_identity<T: RealNumber, M: Matrix<T>>(s: &M, a: Seq<T>, b: Seq<T>, k: int)
    requires a.len() == b.len(), is_identity(s, a.len() as int), 0 <= k <= a.len(),
    ensures val(maha_sum(s, vec_diff(a, b), a.len() as int, k)) == val(sq_euclid(a, b, k)),
    decreases k
{
    axiom_real::<T>();
    let z = vec_diff(a, b); let n = a.len() as int;
    if k > 0 {
        lemma_sum_identity(s, a, b, k - 1);
        lemma_col_identity(s, z, k - 1, n, maha_sum(s, z, n, k - 1));
    }
}
pub proof fn lemma_mahalanobis_with_identity_is_euclid<T: RealNumber, M: Matrix<T>>(s: &M, a: Seq<T>, b: Seq<T>)
    requires a.len() == b.len(), is_identity(s, a.len() as int),
    ensures val(mahalanobis(s, a, b)) == val(euclid(a, b)), //# mahalanobis-with-identity-matrix-is-euclid
{
    axiom_real::<T>();
    let n = a.len() as int;
    lemma_sum_identity(s, a, b, n);
    lemma_sq_nonneg(a, b, n);
    lemma_root_unique(val(mahalanobis(s, a, b)), val(euclid(a, b)));
}
proof fn lemma_sq_nonneg<T: RealNumber>(a: Seq<T>, b: Seq<T>, n: int)
    ensures val(sq_euclid(a, b, n)) >= 0real,
    decreases n
{
    axiom_real::<T>();
    if n > 0 {
        lemma_sq_nonneg(a, b, n - 1);
        let x = val(a[n - 1]) - val(b[n - 1]);
        assert(x * x >= 0real) by(nonlinear_arith);
    }
}
} // verus!
fn main() {}
