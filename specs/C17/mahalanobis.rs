//@unit tier=quick
//@include prelude/uses.rs
use std::marker::PhantomData;
verus! {
//@include prelude/realnumber.rs
//@include prelude/matrix_abs.rs
//@include prelude/distance.rs
//@include prelude/mahalanobis_defs.rs

//@struct src/math/distance/mahalanobis.rs :: Mahalanobis
impl<T: RealNumber, M: Matrix<T>> Mahalanobis<T, M> {
    // what the constructors establish (new / new_from_covariance are NOT under contract: cov + LU inverse):
    // sigma is square and sigmaInv has the same shape
    pub open spec fn inv(&self) -> bool {
        self.sinv().mwf()
        && self.sig().nrows_spec() == self.sig().ncols_spec()
        && self.sinv().nrows_spec() == self.sig().nrows_spec()
        && self.sinv().ncols_spec() == self.sig().ncols_spec()
    }
    // field accessors (the struct has a private PhantomData field, so Verus treats it as opaque in public specs)
    pub closed spec fn sig(&self) -> &M { &self.sigma }
    pub closed spec fn sinv(&self) -> &M { &self.sigmaInv }
}
impl<T: RealNumber, M: Matrix<T>> Distance<Vec<T>, T> for Mahalanobis<T, M> {
    open spec fn dist_req(&self, a: &Vec<T>, b: &Vec<T>) -> bool {
        self.inv() && a@.len() == self.sig().nrows_spec() && b@.len() == self.sig().nrows_spec()
    }
    open spec fn dist_spec(&self, a: &Vec<T>, b: &Vec<T>) -> T { mahalanobis(self.sinv(), a@, b@) }
//@extract src/math/distance/mahalanobis.rs :: impl<T: RealNumber, M: Matrix<T>> Distance<Vec<T>, T> for Mahalanobis<T, M> :: distance :: ret=r
//@spec
        ensures
            r == maha_sum(self.sinv(), vec_diff(x@, y@), x@.len() as int, x@.len() as int).sqrt_spec(), //# mahalanobis-is-sqrt-of-quadratic-form
//@enter
        proof { T::ops_total(); }
//@loop 1
            invariant
                T::obeys_sub_spec(),
                forall|a: T, b: T| #[trigger] a.sub_req(b),
                n == x@.len(), n == y@.len(), z@.len() == n,
                forall|k: int| 0 <= k < i ==> z@[k] == x@[k].sub_spec(y@[k]),
//@loop 2
            invariant
                T::obeys_add_assign_spec(), T::obeys_mul_spec(),
                forall|a: T, b: T| #[trigger] a.mul_req(b),
                forall|a: T, b: T| #[trigger] a.add_assign_req(b),
                forall|a: T, b: T| *(#[trigger] a.add_assign_spec(b)) == a.add_spec(b),
                self.inv(), n == self.sigma.nrows_spec(), z@.len() == n,
                z@ =~= vec_diff(x@, y@),
                s == maha_sum(&self.sigmaInv, z@, n as int, j as int),
//@loop 3
                invariant
                    T::obeys_add_assign_spec(), T::obeys_mul_spec(),
                    forall|a: T, b: T| #[trigger] a.mul_req(b),
                    forall|a: T, b: T| #[trigger] a.add_assign_req(b),
                    forall|a: T, b: T| *(#[trigger] a.add_assign_spec(b)) == a.add_spec(b),
                    self.inv(), n == self.sigma.nrows_spec(), z@.len() == n, j < n,
                    s == maha_col(&self.sigmaInv, z@, j as int, i as int, maha_sum(&self.sigmaInv, z@, n as int, j as int)),
//@end
}
} // verus!
fn main() {}
