//@unit tier=quick
// Metric axioms (without the triangle inequality) of the squared-Euclidean and Euclidean closed forms under
// idealised real arithmetic (A-REAL); the lemmas are about `sq_euclid` / `euclid`, the spec fns the contracts of
// Euclidian::squared_distance / Euclidian::distance (euclidian.rs) are stated with.
//@include prelude/uses.rs
verus! {
//@include prelude/realnumber.rs
//@include prelude/real.rs
//@include prelude/distance_defs.rs

proof fn lemma_square_nonneg(x: real) ensures x * x >= 0real { assert(x * x >= 0real) by(nonlinear_arith); }
proof fn lemma_square_swap(x: real, y: real) ensures (x - y) * (x - y) == (y - x) * (y - x) {
    assert((x - y) * (x - y) == (y - x) * (y - x)) by(nonlinear_arith);
}
// the non-negative root is unique
proof fn lemma_root_unique(r1: real, r2: real)
    requires r1 >= 0real, r2 >= 0real, r1 * r1 == r2 * r2,
    ensures r1 == r2,
{
    assert(r1 == r2) by(nonlinear_arith) requires r1 >= 0real, r2 >= 0real, r1 * r1 == r2 * r2;
}
proof fn lemma_root_zero(r: real) requires r * r == 0real ensures r == 0real {
    assert(r == 0real) by(nonlinear_arith) requires r * r == 0real;
}

pub proof fn lemma_sq_euclid_nonneg<T: RealNumber>(a: Seq<T>, b: Seq<T>, n: int)
    ensures val(sq_euclid(a, b, n)) >= 0real, //# squared-euclid-non-negative
    decreases n
{
    axiom_real::<T>();
    if n > 0 {
        lemma_sq_euclid_nonneg(a, b, n - 1);
        lemma_square_nonneg(val(a[n - 1]) - val(b[n - 1]));
    }
}
pub proof fn lemma_sq_euclid_identity<T: RealNumber>(a: Seq<T>, n: int)
    ensures val(sq_euclid(a, a, n)) == 0real, //# squared-euclid-vanishes-on-identical-arguments
    decreases n
{
    axiom_real::<T>();
    if n > 0 {
        lemma_sq_euclid_identity(a, n - 1);
        assert((val(a[n - 1]) - val(a[n - 1])) * (val(a[n - 1]) - val(a[n - 1])) == 0real) by(nonlinear_arith);
    }
}
pub proof fn lemma_sq_euclid_symmetric<T: RealNumber>(a: Seq<T>, b: Seq<T>, n: int)
    ensures val(sq_euclid(a, b, n)) == val(sq_euclid(b, a, n)), //# squared-euclid-symmetric
    decreases n
{
    axiom_real::<T>();
    if n > 0 {
        lemma_sq_euclid_symmetric(a, b, n - 1);
        lemma_square_swap(val(a[n - 1]), val(b[n - 1]));
    }
}
// Euclidean distance = sqrt of the above
pub proof fn lemma_euclid_nonneg<T: RealNumber>(a: Seq<T>, b: Seq<T>)
    ensures val(euclid(a, b)) >= 0real, //# euclid-non-negative
{
    axiom_real::<T>();
    lemma_sq_euclid_nonneg(a, b, a.len() as int);
}
pub proof fn lemma_euclid_identity<T: RealNumber>(a: Seq<T>)
    ensures val(euclid(a, a)) == 0real, //# euclid-vanishes-on-identical-arguments
{
    axiom_real::<T>();
    lemma_sq_euclid_identity(a, a.len() as int);
    lemma_root_zero(val(euclid(a, a)));
}
pub proof fn lemma_euclid_symmetric<T: RealNumber>(a: Seq<T>, b: Seq<T>)
    requires a.len() == b.len(),
    ensures val(euclid(a, b)) == val(euclid(b, a)), //# euclid-symmetric
{
    axiom_real::<T>();
    let n = a.len() as int;
    lemma_sq_euclid_symmetric(a, b, n);
    lemma_sq_euclid_nonneg(a, b, n);
    lemma_sq_euclid_nonneg(b, a, n);
    lemma_root_unique(val(euclid(a, b)), val(euclid(b, a)));
}
} // verus!
fn main() {}
