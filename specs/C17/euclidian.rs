//@unit tier=quick
//@include prelude/uses.rs
verus! {
//@include prelude/realnumber.rs
//@include prelude/distance.rs
//@include prelude/distance_defs.rs

//@struct src/math/distance/euclidian.rs :: Euclidian
impl Euclidian {
//@extract src/math/distance/euclidian.rs :: impl Euclidian :: squared_distance :: ret=r
//@spec
        requires
            x@.len() == y@.len(),
        ensures
            r == sq_euclid(x@, y@, x@.len() as int), //# squared-euclid-is-sum-of-squared-differences
//@enter
        proof { T::ops_total(); }
//@loop 1
            invariant
                T::obeys_add_assign_spec(), T::obeys_sub_spec(), T::obeys_mul_spec(),
                forall|a: T, b: T| #[trigger] a.sub_req(b),
                forall|a: T, b: T| #[trigger] a.mul_req(b),
                forall|a: T, b: T| #[trigger] a.add_assign_req(b),
                forall|a: T, b: T| *(#[trigger] a.add_assign_spec(b)) == a.add_spec(b),
                x@.len() == y@.len(),
                sum == sq_euclid(x@, y@, i as int),
//@end
}

impl<T: RealNumber> Distance<Vec<T>, T> for Euclidian {
    open spec fn dist_req(&self, a: &Vec<T>, b: &Vec<T>) -> bool { a@.len() == b@.len() }
    open spec fn dist_spec(&self, a: &Vec<T>, b: &Vec<T>) -> T { euclid(a@, b@) }
//@extract src/math/distance/euclidian.rs :: impl<T: RealNumber> Distance<Vec<T>, T> for Euclidian :: distance :: ret=r
//@spec
        ensures
            r == sq_euclid(x@, y@, x@.len() as int).sqrt_spec(), //# euclid-is-sqrt-of-sum-of-squared-differences
//@end
}
} // verus!
fn main() {}
