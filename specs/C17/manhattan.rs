//@unit tier=quick
//@include prelude/uses.rs
verus! {
//@include prelude/realnumber.rs
//@include prelude/distance.rs
//@include prelude/distance_defs.rs

//@struct src/math/distance/manhattan.rs :: Manhattan
impl<T: RealNumber> Distance<Vec<T>, T> for Manhattan {
    open spec fn dist_req(&self, a: &Vec<T>, b: &Vec<T>) -> bool { a@.len() == b@.len() }
    open spec fn dist_spec(&self, a: &Vec<T>, b: &Vec<T>) -> T { manhattan(a@, b@) }
//@extract src/math/distance/manhattan.rs :: impl<T: RealNumber> Distance<Vec<T>, T> for Manhattan :: distance :: ret=r
//@spec
        ensures
            r == manhattan_sum(x@, y@, x@.len() as int), //# manhattan-is-sum-of-absolute-differences
//@enter
        proof { T::ops_total(); }
//@loop 1
            invariant
                T::obeys_add_assign_spec(), T::obeys_sub_spec(),
                forall|a: T, b: T| #[trigger] a.sub_req(b),
                forall|a: T, b: T| #[trigger] a.add_assign_req(b),
                forall|a: T, b: T| *(#[trigger] a.add_assign_spec(b)) == a.add_spec(b),
                x@.len() == y@.len(),
                dist == manhattan_sum(x@, y@, i as int),
//@end
}
} // verus!
fn main() {}
