//@unit tier=quick
// Rejection variants (X5): the same function texts with `panic!(..)` -> `verif_reject()`; contract
// `requires <bad input> ensures false` == "never returns normally".
//@include prelude/uses.rs
use std::marker::PhantomData;
verus! {
//@include prelude/realnumber.rs
//@include prelude/matrix_abs.rs
//@include prelude/distance.rs
//@include prelude/distance_defs.rs

//@struct src/math/distance/euclidian.rs :: Euclidian
impl Euclidian {
//@extract src/math/distance/euclidian.rs :: impl Euclidian :: squared_distance :: variant=reject
//@spec
        requires
            x@.len() != y@.len(),
        ensures
            false, //# squared-euclid-rejects-unequal-lengths
//@enter
        proof { T::ops_total(); }
//@loop 1
            invariant false,
//@end
}
impl<T: RealNumber> Distance<Vec<T>, T> for Euclidian {
    open spec fn dist_req(&self, a: &Vec<T>, b: &Vec<T>) -> bool { a@.len() != b@.len() }
    open spec fn dist_spec(&self, a: &Vec<T>, b: &Vec<T>) -> T { T::zero_spec() }
    // no panic! of its own: rejects through the callee above (so no variant=reject; `ensures false` is the contract)
//@extract src/math/distance/euclidian.rs :: impl<T: RealNumber> Distance<Vec<T>, T> for Euclidian :: distance :: canary=no
//@spec
        ensures
            false, //# euclid-rejects-unequal-lengths
//@end
}

//@struct src/math/distance/manhattan.rs :: Manhattan
impl<T: RealNumber> Distance<Vec<T>, T> for Manhattan {
    open spec fn dist_req(&self, a: &Vec<T>, b: &Vec<T>) -> bool { a@.len() != b@.len() }
    open spec fn dist_spec(&self, a: &Vec<T>, b: &Vec<T>) -> T { T::zero_spec() }
//@extract src/math/distance/manhattan.rs :: impl<T: RealNumber> Distance<Vec<T>, T> for Manhattan :: distance :: variant=reject
//@spec
        ensures
            false, //# manhattan-rejects-unequal-lengths
//@enter
        proof { T::ops_total(); }
//@loop 1
            invariant false,
//@end
}

//@struct src/math/distance/minkowski.rs :: Minkowski
impl<T: RealNumber> Distance<Vec<T>, T> for Minkowski {
    open spec fn dist_req(&self, a: &Vec<T>, b: &Vec<T>) -> bool { a@.len() != b@.len() || self.p < 1 }
    open spec fn dist_spec(&self, a: &Vec<T>, b: &Vec<T>) -> T { T::zero_spec() }
//@extract src/math/distance/minkowski.rs :: impl<T: RealNumber> Distance<Vec<T>, T> for Minkowski :: distance :: variant=reject
//@spec
        ensures
            false, //# minkowski-rejects-unequal-lengths-and-order-below-1
//@enter
        proof { T::ops_total(); }
//@loop 1
            invariant false,
//@end
}

//@struct src/math/distance/hamming.rs :: Hamming
// carrier type fixing T and F (an impl-level `ensures` on Hamming's trait impl is a rustc inference error, see hamming.rs)
pub struct HammingAt<T, F> { pub h: Hamming, pub t: core::marker::PhantomData<(T, F)> }
impl<T: PartialEq, F: RealNumber> HammingAt<T, F> {
//@extract src/math/distance/hamming.rs :: impl<T: PartialEq, F: RealNumber> Distance<Vec<T>, F> for Hamming :: distance :: variant=reject
//@spec
        requires
            x@.len() != y@.len(),
        ensures
            false, //# hamming-rejects-unequal-lengths
//@enter
        proof { F::ops_total(); }
//@loop 1
            invariant false,
//@end
}

//@struct src/math/distance/mahalanobis.rs :: Mahalanobis
impl<T: RealNumber, M: Matrix<T>> Mahalanobis<T, M> {
    pub closed spec fn sig(&self) -> &M { &self.sigma }
}
impl<T: RealNumber, M: Matrix<T>> Distance<Vec<T>, T> for Mahalanobis<T, M> {
    // a vector whose length is not the order of the covariance matrix
    open spec fn dist_req(&self, a: &Vec<T>, b: &Vec<T>) -> bool {
        a@.len() != self.sig().nrows_spec() || b@.len() != self.sig().nrows_spec()
    }
    open spec fn dist_spec(&self, a: &Vec<T>, b: &Vec<T>) -> T { T::zero_spec() }
//@extract src/math/distance/mahalanobis.rs :: impl<T: RealNumber, M: Matrix<T>> Distance<Vec<T>, T> for Mahalanobis<T, M> :: distance :: variant=reject
//@spec
        ensures
            false, //# mahalanobis-rejects-length-not-matching-covariance
//@enter
        proof { T::ops_total(); }
//@loop 1
            invariant false,
//@loop 2
            invariant false,
//@loop 3
                invariant false,
//@end
}
} // verus!
fn main() {}
