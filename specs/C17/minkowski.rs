//@unit tier=quick
//@include prelude/uses.rs
verus! {
//@include prelude/realnumber.rs
//@include prelude/distance.rs
//@include prelude/distance_defs.rs

//@struct src/math/distance/minkowski.rs :: Minkowski
impl<T: RealNumber> Distance<Vec<T>, T> for Minkowski {
    open spec fn dist_req(&self, a: &Vec<T>, b: &Vec<T>) -> bool { a@.len() == b@.len() && self.p >= 1 }
    open spec fn dist_spec(&self, a: &Vec<T>, b: &Vec<T>) -> T { minkowski(a@, b@, self.p) }
//@extract src/math/distance/minkowski.rs :: impl<T: RealNumber> Distance<Vec<T>, T> for Minkowski :: distance :: ret=r
//@spec
        ensures
            r == minkowski_sum(x@, y@, T::from_u16_spec(self.p), x@.len() as int)
                    .powf_spec(T::one_spec().div_spec(T::from_u16_spec(self.p))), //# minkowski-is-pth-root-of-sum-of-pth-powers
//@enter
        proof { T::ops_total(); }
//@loop 1
            invariant
                T::obeys_add_assign_spec(), T::obeys_sub_spec(),
                forall|a: T, b: T| #[trigger] a.sub_req(b),
                forall|a: T, b: T| #[trigger] a.add_assign_req(b),
                forall|a: T, b: T| *(#[trigger] a.add_assign_spec(b)) == a.add_spec(b),
                x@.len() == y@.len(),
                p_t == T::from_u16_spec(self.p),
                dist == minkowski_sum(x@, y@, p_t, i as int),
//@end
}
} // verus!
fn main() {}
