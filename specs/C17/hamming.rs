//@unit tier=quick
//@include prelude/uses.rs
verus! {
//@include prelude/realnumber.rs
//@include prelude/distance.rs
//@include prelude/distance_defs.rs

//@struct src/math/distance/hamming.rs :: Hamming
impl<T: PartialEq, F: RealNumber> Distance<Vec<T>, F> for Hamming {
    // T::obeys_eq_spec(): the executable `!=` on the entry type is its spec function (an arbitrary PartialEq impl
    // is otherwise unconstrained); len <= i64::MAX: the mismatch counter is an i64 (always true for non-zero-sized T)
    open spec fn dist_req(&self, a: &Vec<T>, b: &Vec<T>) -> bool {
        a@.len() == b@.len() && a@.len() <= i64::MAX && T::obeys_eq_spec()
    }
    open spec fn dist_spec(&self, a: &Vec<T>, b: &Vec<T>) -> F { hamming::<T, F>(a@, b@) }
//@extract src/math/distance/hamming.rs :: impl<T: PartialEq, F: RealNumber> Distance<Vec<T>, F> for Hamming :: distance :: ret=r canary=no
//@spec
        // postcondition: the trait contract `r == self.dist_spec(x, y)` == hamming(x@, y@) (an impl-level `ensures`
        // is rejected by rustc type inference here because Hamming implements Distance<Vec<T>, F> for every F)
//@enter
        proof { F::ops_total(); }
//@loop 1
            invariant
                T::obeys_eq_spec(),
                x@.len() == y@.len(),
                x@.len() <= i64::MAX,
                dist == count_ne(x@, y@, i as int),
                0 <= dist <= i,
//@end
}

// The same function text once more, inside an inherent impl of a carrier type that fixes T and F, with the same
// contract written out: this copy takes the vacuity canary (`ensures false` must fail), which cannot be spliced into
// the trait impl above (any impl-level `ensures` there is a rustc type-inference error, see above).
pub struct HammingAt<T, F> { pub h: Hamming, pub t: core::marker::PhantomData<(T, F)> }
impl<T: PartialEq, F: RealNumber> HammingAt<T, F> {
//@extract src/math/distance/hamming.rs :: impl<T: PartialEq, F: RealNumber> Distance<Vec<T>, F> for Hamming :: distance :: ret=r
//@spec
        requires
            x@.len() == y@.len(),
            x@.len() <= i64::MAX,
            T::obeys_eq_spec(),
        ensures
            r == F::from_i64_spec(count_ne(x@, y@, x@.len() as int) as i64)
                    .div_spec(F::from_usize_spec(x@.len() as usize)), //# hamming-is-fraction-of-differing-entries
//@enter
        proof { F::ops_total(); }
//@loop 1
            invariant
                T::obeys_eq_spec(),
                x@.len() == y@.len(),
                x@.len() <= i64::MAX,
                dist == count_ne(x@, y@, i as int),
                0 <= dist <= i,
//@end
}
} // verus!
fn main() {}
