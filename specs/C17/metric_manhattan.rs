//@unit tier=quick
// Metric axioms of the Manhattan closed form under idealised real arithmetic (A-REAL); no code involved:
// the lemmas are about `manhattan_sum`, the spec fn the contract of Manhattan::distance (manhattan.rs) is stated with.
//@include prelude/uses.rs
verus! {
//@include prelude/realnumber.rs
//@include prelude/real.rs
//@include prelude/distance_defs.rs

// d(a,b) >= 0
pub proof fn lemma_manhattan_nonneg<T: RealNumber>(a: Seq<T>, b: Seq<T>, n: int)
    ensures val(manhattan_sum(a, b, n)) >= 0real, //# manhattan-non-negative
    decreases n
{
    axiom_real::<T>();
    if n > 0 { lemma_manhattan_nonneg(a, b, n - 1); }
}
// d(a,a) == 0
pub proof fn lemma_manhattan_identity<T: RealNumber>(a: Seq<T>, n: int)
    ensures val(manhattan_sum(a, a, n)) == 0real, //# manhattan-vanishes-on-identical-arguments
    decreases n
{
    axiom_real::<T>();
    if n > 0 { lemma_manhattan_identity(a, n - 1); }
}
// d(a,b) == d(b,a)
pub proof fn lemma_manhattan_symmetric<T: RealNumber>(a: Seq<T>, b: Seq<T>, n: int)
    ensures val(manhattan_sum(a, b, n)) == val(manhattan_sum(b, a, n)), //# manhattan-symmetric
    decreases n
{
    axiom_real::<T>();
    if n > 0 { lemma_manhattan_symmetric(a, b, n - 1); }
}
// d(a,c) <= d(a,b) + d(b,c)   (termwise |a_i - c_i| <= |a_i - b_i| + |b_i - c_i|)
pub proof fn lemma_manhattan_triangle<T: RealNumber>(a: Seq<T>, b: Seq<T>, c: Seq<T>, n: int)
    ensures val(manhattan_sum(a, c, n)) <= val(manhattan_sum(a, b, n)) + val(manhattan_sum(b, c, n)), //# manhattan-triangle-inequality
    decreases n
{
    axiom_real::<T>();
    if n > 0 { lemma_manhattan_triangle(a, b, c, n - 1); }
}
// the same four facts for the distance the contract of Manhattan::distance returns (n = len)
pub proof fn lemma_manhattan_is_metric<T: RealNumber>(a: Seq<T>, b: Seq<T>, c: Seq<T>)
    requires a.len() == b.len(), b.len() == c.len(),
    ensures
        val(manhattan(a, b)) >= 0real,
        val(manhattan(a, a)) == 0real,
        val(manhattan(a, b)) == val(manhattan(b, a)),
        val(manhattan(a, c)) <= val(manhattan(a, b)) + val(manhattan(b, c)),
{
    let n = a.len() as int;
    lemma_manhattan_nonneg(a, b, n); lemma_manhattan_identity(a, n);
    lemma_manhattan_symmetric(a, b, n); lemma_manhattan_triangle(a, b, c, n);
}
} // verus!
fn main() {}
