//@unit tier=quick
// Metric axioms of the Hamming closed form.  The counting part is exact integer reasoning about `count_ne`
// (the spec fn of the contract in hamming.rs); only the final division by the common length n uses A-REAL
// (val(from_i64(k)) == k, val(from_usize(n)) == n, val(a / b) == val(a) / val(b) for val(b) != 0).
// Hypotheses that are stated explicitly: n > 0 (for n == 0 the code computes 0/0), and `==` of the entry type
// behaves as an equivalence ON THE ENTRIES PRESENT (reflexive / symmetric / transitive; excludes NaN entries).
//@include prelude/uses.rs
verus! {
//@include prelude/realnumber.rs
//@include prelude/real.rs
//@include prelude/distance_defs.rs

pub open spec fn eq_refl_on<T: PartialEq>(a: Seq<T>, n: int) -> bool {
    forall|i: int| 0 <= i < n ==> #[trigger] a[i].eq_spec(&a[i])
}
pub open spec fn eq_symm_on<T: PartialEq>(a: Seq<T>, b: Seq<T>, n: int) -> bool {
    forall|i: int| 0 <= i < n ==> #[trigger] a[i].eq_spec(&b[i]) == b[i].eq_spec(&a[i])
}
pub open spec fn eq_trans_on<T: PartialEq>(a: Seq<T>, b: Seq<T>, c: Seq<T>, n: int) -> bool {
    forall|i: int| 0 <= i < n ==> (#[trigger] a[i].eq_spec(&b[i]) && b[i].eq_spec(&c[i]) ==> a[i].eq_spec(&c[i]))
}

// ---- exact counting facts ----
pub proof fn lemma_count_bounds<T: PartialEq>(a: Seq<T>, b: Seq<T>, n: int)
    requires n >= 0,
    ensures 0 <= count_ne(a, b, n) <= n,
    decreases n
{
    if n > 0 { lemma_count_bounds(a, b, n - 1); }
}
pub proof fn lemma_count_identity<T: PartialEq>(a: Seq<T>, n: int)
    requires eq_refl_on(a, n),
    ensures count_ne(a, a, n) == 0,
    decreases n
{
    if n > 0 { lemma_count_identity(a, n - 1); assert(a[n - 1].eq_spec(&a[n - 1])); }
}
pub proof fn lemma_count_symmetric<T: PartialEq>(a: Seq<T>, b: Seq<T>, n: int)
    requires eq_symm_on(a, b, n),
    ensures count_ne(a, b, n) == count_ne(b, a, n),
    decreases n
{
    if n > 0 { lemma_count_symmetric(a, b, n - 1); assert(a[n - 1].eq_spec(&b[n - 1]) == b[n - 1].eq_spec(&a[n - 1])); }
}
// a_i != c_i  ==>  a_i != b_i or b_i != c_i
pub proof fn lemma_count_triangle<T: PartialEq>(a: Seq<T>, b: Seq<T>, c: Seq<T>, n: int)
    requires eq_trans_on(a, b, c, n),
    ensures count_ne(a, c, n) <= count_ne(a, b, n) + count_ne(b, c, n),
    decreases n
{
    if n > 0 {
        lemma_count_triangle(a, b, c, n - 1);
        assert(a[n - 1].eq_spec(&b[n - 1]) && b[n - 1].eq_spec(&c[n - 1]) ==> a[n - 1].eq_spec(&c[n - 1]));
    }
}

// ---- the quotient ----
// value of the Hamming closed form: count / n
pub proof fn lemma_hamming_value<T: PartialEq, F: RealNumber>(a: Seq<T>, b: Seq<T>)
    requires 0 < a.len() <= i64::MAX, a.len() <= usize::MAX,
    ensures val(hamming::<T, F>(a, b)) == (count_ne(a, b, a.len() as int) as real) / (a.len() as real),
{
    axiom_real::<F>();
    lemma_count_bounds(a, b, a.len() as int);
}
proof fn lemma_div_nonneg(c: real, n: real) requires c >= 0real, n > 0real ensures c / n >= 0real {
    assert(c / n >= 0real) by(nonlinear_arith) requires c >= 0real, n > 0real;
}
proof fn lemma_div_zero(n: real) requires n > 0real ensures 0real / n == 0real {
    assert(0real / n == 0real) by(nonlinear_arith) requires n > 0real;
}
proof fn lemma_div_triangle(c1: real, c2: real, c3: real, n: real)
    requires c1 <= c2 + c3, n > 0real
    ensures c1 / n <= c2 / n + c3 / n
{
    assert(c1 / n <= c2 / n + c3 / n) by(nonlinear_arith) requires c1 <= c2 + c3, n > 0real;
}

pub proof fn lemma_hamming_nonneg<T: PartialEq, F: RealNumber>(a: Seq<T>, b: Seq<T>)
    requires 0 < a.len() <= i64::MAX, a.len() <= usize::MAX, a.len() == b.len(),
    ensures val(hamming::<T, F>(a, b)) >= 0real, //# hamming-non-negative
{
    lemma_hamming_value::<T, F>(a, b);
    lemma_count_bounds(a, b, a.len() as int);
    lemma_div_nonneg(count_ne(a, b, a.len() as int) as real, a.len() as real);
}
pub proof fn lemma_hamming_identity<T: PartialEq, F: RealNumber>(a: Seq<T>)
    requires 0 < a.len() <= i64::MAX, a.len() <= usize::MAX, eq_refl_on(a, a.len() as int),
    ensures val(hamming::<T, F>(a, a)) == 0real, //# hamming-vanishes-on-identical-arguments
{
    lemma_hamming_value::<T, F>(a, a);
    lemma_count_identity(a, a.len() as int);
    lemma_div_zero(a.len() as real);
}
// symmetric even as a machine value: both sides are the same quotient of the same two numbers
pub proof fn lemma_hamming_symmetric<T: PartialEq, F: RealNumber>(a: Seq<T>, b: Seq<T>)
    requires a.len() == b.len(), eq_symm_on(a, b, a.len() as int),
    ensures hamming::<T, F>(a, b) == hamming::<T, F>(b, a), //# hamming-symmetric
{
    lemma_count_symmetric(a, b, a.len() as int);
}
pub proof fn lemma_hamming_triangle<T: PartialEq, F: RealNumber>(a: Seq<T>, b: Seq<T>, c: Seq<T>)
    requires
        0 < a.len() <= i64::MAX, a.len() <= usize::MAX, a.len() == b.len(), b.len() == c.len(),
        eq_trans_on(a, b, c, a.len() as int),
    ensures
        val(hamming::<T, F>(a, c)) <= val(hamming::<T, F>(a, b)) + val(hamming::<T, F>(b, c)), //# hamming-triangle-inequality
{
    let n = a.len() as int;
    lemma_hamming_value::<T, F>(a, c); lemma_hamming_value::<T, F>(a, b); lemma_hamming_value::<T, F>(b, c);
    lemma_count_triangle(a, b, c, n);
    lemma_div_triangle(count_ne(a, c, n) as real, count_ne(a, b, n) as real, count_ne(b, c, n) as real, n as real);
}
} // verus!
fn main() {}
