//@unit tier=quick
//@include prelude/uses.rs
verus! {
//@include prelude/realnumber.rs
//@include prelude/basevector.rs

// definition: number of positions i < n with a[i] == b[i]
pub open spec fn count_eq<T: RealNumber>(a: Seq<T>, b: Seq<T>, n: int) -> int
    decreases n
{
    if n <= 0 { 0 } else { count_eq(a, b, n - 1) + if a[n - 1].eq_spec(&b[n - 1]) { 1int } else { 0int } }
}

pub struct Accuracy {}
impl Accuracy {
//@extract src/metrics/accuracy.rs :: impl Accuracy :: get_score :: ret=r
//@spec
        requires
            y_true.vview().len() == y_pred.vview().len(),
            y_true.vview().len() <= i64::MAX,
        ensures
            // accuracy = (#equal entries) / n, with the conversions and the division of T
            r == T::from_i64_spec(count_eq(y_true.vview(), y_pred.vview(), y_true.vview().len() as int) as i64)
                    .div_spec(T::from_usize_spec(y_true.vview().len() as usize)), //# accuracy-is-fraction-of-equal-entries
//@enter
        proof { T::ops_total(); }
//@loop 1
            invariant
                T::obeys_eq_spec(),
                n == y_true.vview().len(),
                n == y_pred.vview().len(),
                n <= i64::MAX,
                positive == count_eq(y_true.vview(), y_pred.vview(), i as int),
                0 <= positive <= i,
//@end
}

// rejection variant: with vectors of different length the function never returns normally
pub struct AccuracyR {}
impl AccuracyR {
//@extract src/metrics/accuracy.rs :: impl Accuracy :: get_score :: variant=reject
//@spec
        requires
            y_true.vview().len() != y_pred.vview().len(),
        ensures
            false, //# accuracy-rejects-unequal-lengths
//@enter
        proof { T::ops_total(); }
//@loop 1
            invariant false,
//@end
}
} // verus!
fn main() {}
