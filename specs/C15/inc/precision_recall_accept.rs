// C15/inc/precision_recall_accept.rs -- Precision::get_score / Recall::get_score (accept variant) with their
// contracts and loop invariants. Included by the unit that states them as property clauses (precision_recall.rs)
// and by f1.rs, whose F1::get_score calls them through these contracts.
pub struct Precision {}
impl Precision {
//@extract src/metrics/precision.rs :: impl Precision :: get_score :: ret=r sub=RealNumber,=>RealNumber+Display,
//@spec
        requires
            y_true.vview().len() == y_pred.vview().len(),
            y_true.vview().len() <= i64::MAX,
            binary_labels(y_true.vview()),
            binary_labels(y_pred.vview()),
        ensures
            // precision = #(predicted one and truly one) / #(predicted one)
            r == T::from_i64_spec(count_both_one(y_true.vview(), y_pred.vview(), y_true.vview().len() as int) as i64)
                    .div_spec(T::from_i64_spec(count_one(y_pred.vview(), y_pred.vview().len() as int) as i64)), //# precision-is-tp-over-predicted-positives
            r == precision_spec(y_true.vview(), y_pred.vview()),
//@enter
        proof { T::ops_total(); }
//@loop 1
            invariant
                T::obeys_eq_spec(),
                n == y_true.vview().len(),
                n == y_pred.vview().len(),
                n <= i64::MAX,
                binary_labels(y_true.vview()),
                binary_labels(y_pred.vview()),
                p == count_one(y_pred.vview(), i as int),
                tp == count_both_one(y_true.vview(), y_pred.vview(), i as int),
                0 <= tp <= p <= i,
//@end
}

pub struct Recall {}
impl Recall {
//@extract src/metrics/recall.rs :: impl Recall :: get_score :: ret=r sub=RealNumber,=>RealNumber+Display,
//@spec
        requires
            y_true.vview().len() == y_pred.vview().len(),
            y_true.vview().len() <= i64::MAX,
            binary_labels(y_true.vview()),
            binary_labels(y_pred.vview()),
        ensures
            // recall = #(predicted one and truly one) / #(truly one)
            r == T::from_i64_spec(count_both_one(y_true.vview(), y_pred.vview(), y_true.vview().len() as int) as i64)
                    .div_spec(T::from_i64_spec(count_one(y_true.vview(), y_true.vview().len() as int) as i64)), //# recall-is-tp-over-actual-positives
            r == recall_spec(y_true.vview(), y_pred.vview()),
//@enter
        proof { T::ops_total(); }
//@loop 1
            invariant
                T::obeys_eq_spec(),
                n == y_true.vview().len(),
                n == y_pred.vview().len(),
                n <= i64::MAX,
                binary_labels(y_true.vview()),
                binary_labels(y_pred.vview()),
                p == count_one(y_true.vview(), i as int),
                tp == count_both_one(y_true.vview(), y_pred.vview(), i as int),
                0 <= tp <= p <= i,
//@end
}
