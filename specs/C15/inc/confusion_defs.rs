// ---------------------------------------------------------------------------------------------
// C15/inc/confusion_defs.rs -- textbook definitions of the binary confusion counts and of
// precision / recall / F-beta over abstract label sequences (property C15). Pure definitions, no assumptions.
// A label "is one" when it compares equal (PartialEq of T) to T::one().
// ---------------------------------------------------------------------------------------------
pub open spec fn is_one<T: RealNumber>(x: T) -> bool { x.eq_spec(&T::one_spec()) }
pub open spec fn is_zero<T: RealNumber>(x: T) -> bool { x.eq_spec(&T::zero_spec()) }

// documented domain of the binary classification metrics: every label is 0 or 1
pub open spec fn binary_labels<T: RealNumber>(s: Seq<T>) -> bool {
    forall|i: int| 0 <= i < s.len() ==> is_zero(#[trigger] s[i]) || is_one(s[i])
}

// number of positions i < n with s[i] == 1
pub open spec fn count_one<T: RealNumber>(s: Seq<T>, n: int) -> int
    decreases n
{
    if n <= 0 { 0 } else { count_one(s, n - 1) + if is_one(s[n - 1]) { 1int } else { 0int } }
}

// number of positions i < n with a[i] == 1 and b[i] == 1 (true positives)
pub open spec fn count_both_one<T: RealNumber>(a: Seq<T>, b: Seq<T>, n: int) -> int
    decreases n
{
    if n <= 0 { 0 } else { count_both_one(a, b, n - 1) + if is_one(a[n - 1]) && is_one(b[n - 1]) { 1int } else { 0int } }
}

// precision = TP / (TP + FP) = #(true one and predicted one) / #(predicted one)
pub open spec fn precision_spec<T: RealNumber>(y_true: Seq<T>, y_pred: Seq<T>) -> T {
    T::from_i64_spec(count_both_one(y_true, y_pred, y_true.len() as int) as i64)
        .div_spec(T::from_i64_spec(count_one(y_pred, y_pred.len() as int) as i64))
}

// recall = TP / (TP + FN) = #(true one and predicted one) / #(true one)
pub open spec fn recall_spec<T: RealNumber>(y_true: Seq<T>, y_pred: Seq<T>) -> T {
    T::from_i64_spec(count_both_one(y_true, y_pred, y_true.len() as int) as i64)
        .div_spec(T::from_i64_spec(count_one(y_true, y_true.len() as int) as i64))
}

// F-beta = (1 + beta^2) * (precision * recall) / (beta^2 * precision + recall)
pub open spec fn fbeta_of<T: RealNumber>(beta: T, p: T, r: T) -> T {
    T::one_spec().add_spec(beta.mul_spec(beta)).mul_spec(p.mul_spec(r))
        .div_spec(beta.mul_spec(beta).mul_spec(p).add_spec(r))
}
