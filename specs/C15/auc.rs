//@unit tier=quick
//@include prelude/uses.rs
use std::fmt::Display;
use std::iter::{Skip, Take};
use std::slice::IterMut;
use vstd::std_specs::iter::{IteratorSpec, take_iter, take_count, skip_iter, skip_init_n};
verus! {
//@include prelude/realnumber.rs
//@include prelude/basevector.rs
//@include prelude/order.rs
//@include prelude/total_order.rs
//@include prelude/argsort.rs
//@include prelude/itermut_window.rs
//@include C15/inc/confusion_defs.rs

// ------------------------------------------------------------------------------------------------
// Definitions (rank-sum / Mann-Whitney form of ROC-AUC with mid-ranks for ties)
// ------------------------------------------------------------------------------------------------

// documented domain of the labels: every label is exactly one of 0 / 1
pub open spec fn exactly_binary<T: RealNumber>(s: Seq<T>) -> bool {
    forall|i: int| 0 <= i < s.len() ==> is_zero(#[trigger] s[i]) != is_one(s[i])
}

// documented domain of the scores: `==` of T is symmetric and transitive on them (no NaN-like values)
// (opaque: get_score's loops are not isolated, so the whole body is one context; the two quantifiers are revealed in the lemmas only)
#[verifier::opaque]
pub open spec fn eq_per_on<T: PartialEq>(s: Seq<T>) -> bool {
    &&& forall|i: int, j: int| #![trigger s[i].eq_spec(&s[j])]
            0 <= i < s.len() && 0 <= j < s.len() && s[i].eq_spec(&s[j]) ==> s[j].eq_spec(&s[i])
    &&& forall|i: int, j: int, k: int| #![trigger s[i].eq_spec(&s[j]), s[j].eq_spec(&s[k])]
            0 <= i < s.len() && 0 <= j < s.len() && 0 <= k < s.len() && s[i].eq_spec(&s[j]) && s[j].eq_spec(&s[k])
            ==> s[i].eq_spec(&s[k])
}

// number of positions i < n with s[i] == 0
pub open spec fn count_zero<T: RealNumber>(s: Seq<T>, n: int) -> int
    decreases n
{
    if n <= 0 { 0 } else { count_zero(s, n - 1) + if is_zero(s[n - 1]) { 1int } else { 0int } }
}

// the number k as a value of T: 0 + 1 + ... + 1 (k times)
pub open spec fn t_count<T: RealNumber>(k: int) -> T
    decreases k
{
    if k <= 0 { T::zero_spec() } else { t_count::<T>(k - 1).add_spec(T::one_spec()) }
}

// tie group of position k in the ascending score sequence s: the maximal run [run_start, run_end) of
// adjacent equal scores that contains k
pub open spec fn run_start<T: PartialEq>(s: Seq<T>, k: int) -> int
    decreases k
{
    if k <= 0 { 0 } else if s[k - 1].eq_spec(&s[k]) { run_start(s, k - 1) } else { k }
}
pub open spec fn run_end<T: PartialEq>(s: Seq<T>, k: int) -> int
    decreases s.len() - k
{
    if k >= s.len() - 1 { s.len() as int } else if s[k].eq_spec(&s[k + 1]) { run_end(s, k + 1) } else { k + 1 }
}

// mid-rank of the tie group occupying the 0-based positions [lo, hi), i.e. the ranks lo+1 ..= hi:
// (first rank + last rank) / 2; a group of one keeps its own rank lo+1 (written without the division)
pub open spec fn mid_rank<T: RealNumber>(lo: int, hi: int) -> T {
    if hi == lo + 1 { T::from_usize_spec((lo + 1) as usize) }
    else { T::from_usize_spec((lo + 1 + hi) as usize).div_spec(T::two_spec()) }
}
pub open spec fn mid_ranks<T: RealNumber>(s: Seq<T>) -> Seq<T> {
    Seq::new(s.len(), |k: int| mid_rank::<T>(run_start(s, k), run_end(s, k)))
}

// sum over the sorted positions i < n whose original label is one of rank[i], left fold from zero
pub open spec fn pos_rank_sum<T: RealNumber>(y_true: Seq<T>, idx: Seq<usize>, rank: Seq<T>, n: int) -> T
    decreases n
{
    if n <= 0 { T::zero_spec() }
    else if is_one(y_true[idx[n - 1] as int]) { pos_rank_sum(y_true, idx, rank, n - 1).add_spec(rank[n - 1]) }
    else { pos_rank_sum(y_true, idx, rank, n - 1) }
}

// U / (pos * neg) with U = R_pos - pos (pos + 1) / 2
pub open spec fn mann_whitney<T: RealNumber>(rank_sum: T, pos: T, neg: T) -> T {
    rank_sum.sub_spec(pos.mul_spec(pos.add_spec(T::one_spec())).div_spec(T::two_spec())).div_spec(pos.mul_spec(neg))
}

// scores rearranged by idx
pub open spec fn gather<T>(s: Seq<T>, idx: Seq<usize>) -> Seq<T> {
    Seq::new(idx.len(), |i: int| s[idx[i] as int])
}

// idx arranges the scores in ascending order (idx is a permutation of 0..n)
pub open spec fn ascending_arrangement<T: PartialOrd>(scores: Seq<T>, idx: Seq<usize>) -> bool {
    is_argsort_of(scores, gather(scores, idx), idx)
}

// the Mann-Whitney AUC of (y_true, scores) computed from the ascending arrangement idx of the scores
pub open spec fn mann_whitney_auc<T: RealNumber>(y_true: Seq<T>, scores: Seq<T>, idx: Seq<usize>) -> T {
    let n = y_true.len() as int;
    mann_whitney(
        pos_rank_sum(y_true, idx, mid_ranks(gather(scores, idx)), n),
        t_count::<T>(count_one(y_true, n)),
        t_count::<T>(count_zero(y_true, n)))
}

// ------------------------------------------------------------------------------------------------
// Lemmas
// ------------------------------------------------------------------------------------------------
proof fn lemma_per_gather<T: PartialOrd>(before: Seq<T>, after: Seq<T>, idx: Seq<usize>)
    requires
        eq_per_on(before),
        is_argsort_of(before, after, idx),
    ensures
        eq_per_on(after),
{
    reveal(eq_per_on);
    reveal(is_argsort_of);
    assert forall|i: int, j: int| #![trigger after[i].eq_spec(&after[j])]
        0 <= i < after.len() && 0 <= j < after.len() && after[i].eq_spec(&after[j]) implies after[j].eq_spec(&after[i]) by {
        assert(after[i] == before[idx[i] as int]);
        assert(after[j] == before[idx[j] as int]);
        assert(before[idx[i] as int].eq_spec(&before[idx[j] as int]));
    }
    assert forall|i: int, j: int, k: int| #![trigger after[i].eq_spec(&after[j]), after[j].eq_spec(&after[k])]
        0 <= i < after.len() && 0 <= j < after.len() && 0 <= k < after.len() && after[i].eq_spec(&after[j]) && after[j].eq_spec(&after[k])
        implies after[i].eq_spec(&after[k]) by {
        assert(after[i] == before[idx[i] as int]);
        assert(after[j] == before[idx[j] as int]);
        assert(after[k] == before[idx[k] as int]);
        assert(before[idx[i] as int].eq_spec(&before[idx[j] as int]));
        assert(before[idx[j] as int].eq_spec(&before[idx[k] as int]));
    }
}

// what get_score uses of the argsort contract: lengths, indices in range, `after` is `before` gathered by idx
proof fn lemma_argsort_gather<T: PartialOrd>(before: Seq<T>, after: Seq<T>, idx: Seq<usize>)
    requires
        is_argsort_of(before, after, idx),
    ensures
        idx.len() == before.len(),
        after.len() == before.len(),
        forall|i: int| 0 <= i < idx.len() ==> (#[trigger] idx[i]) < before.len(),
        after =~= gather(before, idx),
{
    reveal(is_argsort_of);
}

proof fn lemma_eq_sym<T: PartialEq>(s: Seq<T>, i: int, j: int)
    requires
        eq_per_on(s),
        0 <= i < s.len(), 0 <= j < s.len(),
        s[i].eq_spec(&s[j]),
    ensures
        s[j].eq_spec(&s[i]),
{
    reveal(eq_per_on);
}

// inside a block [i, j) whose entries all equal s[i], adjacent entries are equal
proof fn lemma_adjacent_in_block<T: PartialEq>(s: Seq<T>, i: int, j: int, k: int)
    requires
        eq_per_on(s),
        0 <= i <= k, k + 1 < j <= s.len(),
        forall|m: int| i < m < j ==> (#[trigger] s[m]).eq_spec(&s[i]),
    ensures
        s[k].eq_spec(&s[k + 1]),
{
    reveal(eq_per_on);
    assert(s[k + 1].eq_spec(&s[i]));
    assert(s[i].eq_spec(&s[k + 1]));
    if k > i {
        assert(s[k].eq_spec(&s[i]));
    }
}

// the block ends at j: the entry at j differs from its predecessor
proof fn lemma_block_end<T: PartialEq>(s: Seq<T>, i: int, j: int)
    requires
        eq_per_on(s),
        0 <= i < j < s.len(),
        forall|m: int| i < m < j ==> (#[trigger] s[m]).eq_spec(&s[i]),
        !s[j].eq_spec(&s[i]),
    ensures
        !s[j - 1].eq_spec(&s[j]),
{
    reveal(eq_per_on);
    if s[j - 1].eq_spec(&s[j]) {
        assert(s[j].eq_spec(&s[j - 1]));
        if j - 1 > i {
            assert(s[j - 1].eq_spec(&s[i]));
        }
        assert(s[j].eq_spec(&s[i]));
    }
}

proof fn lemma_run_start_in_block<T: PartialEq>(s: Seq<T>, i: int, j: int, k: int)
    requires
        eq_per_on(s),
        0 <= i <= k < j <= s.len(),
        i == 0 || !s[i - 1].eq_spec(&s[i]),
        forall|m: int| i < m < j ==> (#[trigger] s[m]).eq_spec(&s[i]),
    ensures
        run_start(s, k) == i,
    decreases k - i
{
    if k > i {
        lemma_adjacent_in_block(s, i, j, k - 1);
        lemma_run_start_in_block(s, i, j, k - 1);
    }
}

proof fn lemma_run_end_in_block<T: PartialEq>(s: Seq<T>, i: int, j: int, k: int)
    requires
        eq_per_on(s),
        0 <= i <= k < j <= s.len(),
        forall|m: int| i < m < j ==> (#[trigger] s[m]).eq_spec(&s[i]),
        j == s.len() || !s[j].eq_spec(&s[i]),
    ensures
        run_end(s, k) == j,
    decreases j - k
{
    if k < j - 1 {
        lemma_adjacent_in_block(s, i, j, k);
        lemma_run_end_in_block(s, i, j, k + 1);
    } else if j < s.len() {
        lemma_block_end(s, i, j);
    }
}

pub struct AUC {}
impl AUC {
//@extract src/metrics/auc.rs :: impl AUC :: get_score :: ret=res sub=RealNumber,=>RealNumber+Display,
//@spec
        requires
            y_true.vview().len() == y_pred_prob.vview().len(),
            y_true.vview().len() >= 1,
            2 * y_true.vview().len() <= usize::MAX,
            exactly_binary(y_true.vview()),
            eq_per_on(y_pred_prob.vview()),
            total_on(argsort_values(y_pred_prob.vview())),
        ensures
            // for an ascending arrangement idx of the scores (the one the sort produced): the result is
            // (sum of the mid-ranks of the positives - pos (pos + 1) / 2) / (pos * neg)
            exists|idx: Seq<usize>| #[trigger] ascending_arrangement(y_pred_prob.vview(), idx)
                && res == mann_whitney_auc(y_true.vview(), y_pred_prob.vview(), idx), //# auc-is-mann-whitney-with-mid-ranks
//@enter
        proof {
            T::ops_total();
            // whatever the argsort returns: rearranging scores on which `==` is a partial equivalence keeps it one
            assert forall|before: Seq<T>, after: Seq<T>, idx: Seq<usize>|
                eq_per_on(before) && #[trigger] is_argsort_of(before, after, idx) implies eq_per_on(after) by {
                lemma_per_gather(before, after, idx);
            }
            // ... and the sorted vector is the scores gathered by the returned indices, which are in range
            assert forall|before: Seq<T>, after: Seq<T>, idx: Seq<usize>| #[trigger] is_argsort_of(before, after, idx) implies
                idx.len() == before.len() && after.len() == before.len() && after == gather(before, idx)
                && (forall|i: int| 0 <= i < idx.len() ==> (#[trigger] idx[i]) < before.len()) by {
                lemma_argsort_gather(before, after, idx);
            }
        }
//@loop 1
            invariant
                T::obeys_eq_spec(), T::obeys_add_assign_spec(),
                forall|a: T, b: T| #[trigger] a.add_assign_req(b),
                forall|a: T, b: T| *(#[trigger] a.add_assign_spec(b)) == a.add_spec(b),
                n == y_true.vview().len(),
                exactly_binary(y_true.vview()),
                count_one(y_true.vview(), i as int) >= 0,
                count_zero(y_true.vview(), i as int) >= 0,
                pos == t_count::<T>(count_one(y_true.vview(), i as int)),
                neg == t_count::<T>(count_zero(y_true.vview(), i as int)),
//@loop 2
            invariant
                T::obeys_eq_spec(), T::obeys_div_spec(),
                forall|a: T, b: T| #[trigger] a.div_req(b),
                n == y_pred@.len(),
                n == rank@.len(),
                2 * n <= usize::MAX,
                eq_per_on(y_pred@),
                y_pred@ =~= gather(y_pred_prob.vview(), label_idx@),
                0 <= i <= n,
                i < n ==> (i == 0 || !y_pred@[i - 1].eq_spec(&y_pred@[i as int])),
                forall|k: int| 0 <= k < i ==> #[trigger] rank@[k] == mid_rank::<T>(run_start(y_pred@, k), run_end(y_pred@, k)),
            decreases n - i
//@loop 3
                    invariant
                        T::obeys_eq_spec(),
                        n == y_pred@.len(),
                        i < j <= n,
                        forall|m: int| i < m < j ==> (#[trigger] y_pred@[m]).eq_spec(&y_pred@[i as int]),
                    decreases n - j
//@loopbody 2
            let ghost i0 = i as int;        // start of the tie group handled by this iteration
            let ghost rank0 = rank@;
            broadcast use axiom_iter_mut_window_frame;
//@loopend 2
            proof {
                if !(i0 == n - 1 || !y_pred@[i0].eq_spec(&y_pred@[i0 + 1])) {
                    // second branch: the scan (loop 3) stopped at j, which is now i. The block [i0, j) is the tie group of each
                    // of its positions, and it has at least two entries
                    let j = i as int;
                    assert(y_pred@[i0].eq_spec(&y_pred@[i0 + 1]));
                    lemma_eq_sym(y_pred@, i0, i0 + 1);
                    assert(j >= i0 + 2);
                    assert forall|k: int| i0 <= k < j implies run_start(y_pred@, k) == i0 && run_end(y_pred@, k) == j by {
                        lemma_run_start_in_block(y_pred@, i0, j, k);
                        lemma_run_end_in_block(y_pred@, i0, j, k);
                    }
                    if j < n { lemma_block_end(y_pred@, i0, j); }
                }
            }
//@loop 4
                    invariant
                        rank@.len() == n, rank0.len() == n, i < j <= n,
                        VERUS_ghost_iter.seq().len() == j - i,
                        0 <= VERUS_ghost_iter.index@ <= j - i,
                        forall|k: int| i <= k < i + VERUS_ghost_iter.index@ ==> #[trigger] rank@[k] == r,
                        forall|k: int| i <= k < j ==> *final(VERUS_ghost_iter.seq()[k - i]) == #[trigger] rank@[k],
                        forall|k: int| 0 <= k < n && !(i <= k < j) ==> #[trigger] rank@[k] == rank0[k],
//@loop 5
            invariant
                T::obeys_eq_spec(), T::obeys_add_assign_spec(),
                forall|a: T, b: T| #[trigger] a.add_assign_req(b),
                forall|a: T, b: T| *(#[trigger] a.add_assign_spec(b)) == a.add_spec(b),
                n == y_true.vview().len(),
                n == rank@.len(),
                n == y_pred_prob.vview().len(),
                is_argsort_of(y_pred_prob.vview(), y_pred@, label_idx@),
                rank@ =~= mid_ranks(y_pred@),
                ascending_arrangement(y_pred_prob.vview(), label_idx@),
                auc == pos_rank_sum(y_true.vview(), label_idx@, rank@, i as int),
//@end
}
} // verus!
fn main() {}
