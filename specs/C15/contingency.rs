//@unit tier=quick
//@include prelude/uses.rs
verus! {
//@include prelude/realnumber.rs

// ---------------------------------------------------------------------------------------------
// stand-in for crate::math::vector::RealNumberVector (blanket impl for V: BaseVector<T>; body: to_vec, sort_by with a
// closure, dedup, std HashMap keyed by to_i64 -- outside the Verus subset). contingency_matrix is verified against the
// contract below; the body of unique_with_indices is NOT verified here.
// ---------------------------------------------------------------------------------------------
// ASSUME[A-UNIQUE-IDX] the two results of unique_with_indices are functions of the vector's contents (no hidden state:
//   the HashMap is only looked up by key, never iterated)
pub uninterp spec fn uwi_classes<T>(v: Seq<T>) -> Seq<T>;
// ASSUME[A-UNIQUE-IDX] see above
pub uninterp spec fn uwi_idx<T>(v: Seq<T>) -> Seq<usize>;

// what (classes, idx) is for the label vector `labels`: one index per position, every index names a class,
// no class twice, and position i carries the label classes[idx[i]]
pub open spec fn is_unique_with_indices<T: RealNumber>(labels: Seq<T>, classes: Seq<T>, idx: Seq<usize>) -> bool {
    &&& idx.len() == labels.len()
    &&& forall|i: int| 0 <= i < idx.len() ==> (#[trigger] idx[i]) < classes.len()
    &&& forall|a: int, b: int| 0 <= a < b < classes.len() ==> !(#[trigger] classes[a].eq_spec(&classes[b]))
    &&& forall|i: int| 0 <= i < labels.len() ==> (#[trigger] labels[i]).eq_spec(&classes[idx[i] as int])
}

pub trait RealNumberVector<T: RealNumber> {
    spec fn labels_view(&self) -> Seq<T>;
//@checkdecl src/math/vector.rs :: pub trait RealNumberVector<T: RealNumber> :: unique_with_indices :: fn unique_with_indices(&self) -> (Vec<T>, Vec<usize>)
    fn unique_with_indices(&self) -> (r: (Vec<T>, Vec<usize>))
        ensures
            r.0@ == uwi_classes(self.labels_view()),
            r.1@ == uwi_idx(self.labels_view()),
            is_unique_with_indices(self.labels_view(), r.0@, r.1@);
}

impl<T: RealNumber> RealNumberVector<T> for Vec<T> {
    open spec fn labels_view(&self) -> Seq<T> { self@ }
    // ASSUME[A-UNIQUE-IDX] contract of unique_with_indices assumed (callee outside the Verus subset); true only for
    //   labels without NaN whose to_i64 values are pairwise different for different labels (integer-valued labels)
    #[verifier::external_body]
    fn unique_with_indices(&self) -> (r: (Vec<T>, Vec<usize>)) { unimplemented!() }
}

// definition: number of positions i < n with ci[i] == a and ki[i] == b
pub open spec fn count_cell(ci: Seq<usize>, ki: Seq<usize>, a: int, b: int, n: int) -> int
    decreases n
{
    if n <= 0 { 0 } else {
        count_cell(ci, ki, a, b, n - 1) + if ci[n - 1] as int == a && ki[n - 1] as int == b { 1int } else { 0int }
    }
}

pub proof fn lemma_count_cell_bound(ci: Seq<usize>, ki: Seq<usize>, a: int, b: int, n: int)
    ensures 0 <= count_cell(ci, ki, a, b, n) <= (if n <= 0 { 0 } else { n }),
    decreases n
{
    if n > 0 { lemma_count_cell_bound(ci, ki, a, b, n - 1); }
}

// `m` is the contingency table of the index vectors ci, ki over their first n positions, with r rows and c columns
pub open spec fn is_table(m: Seq<Vec<usize>>, ci: Seq<usize>, ki: Seq<usize>, r: int, c: int, n: int) -> bool {
    &&& m.len() == r
    &&& forall|a: int| 0 <= a < r ==> (#[trigger] m[a])@.len() == c
    &&& forall|a: int, b: int| 0 <= a < r && 0 <= b < c ==> (#[trigger] m[a]@[b]) as int == count_cell(ci, ki, a, b, n)
}

// what one pass through the counting loop's body does: cell (ci[i], ki[i]) incremented, shape and every other cell unchanged
pub open spec fn counts_position(m0: Seq<Vec<usize>>, m1: Seq<Vec<usize>>, ci: Seq<usize>, ki: Seq<usize>, r: int, c: int, i: int) -> bool {
    &&& m1.len() == r
    &&& forall|a: int| 0 <= a < r ==> (#[trigger] m1[a])@.len() == c
    &&& m1[ci[i] as int]@[ki[i] as int] == m0[ci[i] as int]@[ki[i] as int] + 1
    &&& forall|a: int, b: int| 0 <= a < r && 0 <= b < c && !(a == ci[i] && b == ki[i]) ==> (#[trigger] m1[a]@[b]) == m0[a]@[b]
}

// one step of the counting loop. The effect of the body is a HYPOTHESIS of the conclusion, not a precondition: a body that does
// something else fails the (labelled) loop invariant, not this call.
pub proof fn lemma_table_step(m0: Seq<Vec<usize>>, m1: Seq<Vec<usize>>, ci: Seq<usize>, ki: Seq<usize>, r: int, c: int, i: int)
    requires
        is_table(m0, ci, ki, r, c, i),
        0 <= i < ci.len(), 0 <= i < ki.len(),
        ci[i] < r, ki[i] < c,
    ensures
        counts_position(m0, m1, ci, ki, r, c, i) ==> is_table(m1, ci, ki, r, c, i + 1),
{
    if counts_position(m0, m1, ci, ki, r, c, i) {
        assert forall|a: int, b: int| 0 <= a < r && 0 <= b < c implies (#[trigger] m1[a]@[b]) as int == count_cell(ci, ki, a, b, i + 1) by {
            assert(m0[a]@[b] as int == count_cell(ci, ki, a, b, i));
        }
    }
}

// == on the labels is symmetric and transitive (true for f32/f64, NaN included; stated as a hypothesis, not assumed)
pub open spec fn eq_sym_trans<T: RealNumber>() -> bool {
    &&& forall|x: T, y: T| #[trigger] x.eq_spec(&y) ==> y.eq_spec(&x)
    &&& forall|x: T, y: T, z: T| #[trigger] x.eq_spec(&y) && #[trigger] y.eq_spec(&z) ==> x.eq_spec(&z)
}

// definition on the labels themselves: number of positions i < n with lt[i] == x and lp[i] == y
pub open spec fn count_label_pair<T: RealNumber>(lt: Seq<T>, lp: Seq<T>, x: T, y: T, n: int) -> int
    decreases n
{
    if n <= 0 { 0 } else {
        count_label_pair(lt, lp, x, y, n - 1) + if lt[n - 1].eq_spec(&x) && lp[n - 1].eq_spec(&y) { 1int } else { 0int }
    }
}

// idx[i] == a exactly if labels[i] == classes[a]
pub proof fn lemma_idx_iff_label<T: RealNumber>(labels: Seq<T>, classes: Seq<T>, idx: Seq<usize>, i: int, a: int)
    requires
        eq_sym_trans::<T>(),
        is_unique_with_indices(labels, classes, idx),
        0 <= i < labels.len(), 0 <= a < classes.len(),
    ensures
        (idx[i] as int == a) <==> labels[i].eq_spec(&classes[a]),
{
    let k = idx[i] as int;
    assert(labels[i].eq_spec(&classes[k]));
    if k != a && labels[i].eq_spec(&classes[a]) {
        assert(classes[k].eq_spec(&labels[i]));
        assert(classes[k].eq_spec(&classes[a]));
        assert(classes[a].eq_spec(&classes[k]));
        if k < a { assert(!classes[k].eq_spec(&classes[a])); } else { assert(!classes[a].eq_spec(&classes[k])); }
    }
}

pub proof fn lemma_cell_is_label_pair_count<T: RealNumber>(lt: Seq<T>, lp: Seq<T>, classes: Seq<T>, ci: Seq<usize>,
    clusters: Seq<T>, ki: Seq<usize>, a: int, b: int, n: int)
    requires
        eq_sym_trans::<T>(),
        is_unique_with_indices(lt, classes, ci),
        is_unique_with_indices(lp, clusters, ki),
        0 <= a < classes.len(), 0 <= b < clusters.len(),
        n <= lt.len(), n <= lp.len(),
    ensures
        count_cell(ci, ki, a, b, n) == count_label_pair(lt, lp, classes[a], clusters[b], n),
    decreases n
{
    if n > 0 {
        lemma_cell_is_label_pair_count(lt, lp, classes, ci, clusters, ki, a, b, n - 1);
        lemma_idx_iff_label(lt, classes, ci, n - 1, a);
        lemma_idx_iff_label(lp, clusters, ki, n - 1, b);
    }
}

// the rows pushed so far: `rows` rows of `c` zeros (takes the Vec itself: fixes the element type, which rustc infers only
// from the `return` at the point where the first loop's invariant is type-checked)
pub open spec fn zero_rows(m: Vec<Vec<usize>>, rows: int, c: int) -> bool {
    &&& m@.len() == rows
    &&& forall|a: int| 0 <= a < rows ==> (#[trigger] m@[a])@.len() == c
    &&& forall|a: int, b: int| 0 <= a < rows && 0 <= b < c ==> (#[trigger] m@[a]@[b]) == 0
}

//@extract src/metrics/cluster_helpers.rs :: - :: contingency_matrix :: ret=r
//@spec
    requires
        // the code indexes cluster_idx[i] for every i < class_idx.len()
        labels_true@.len() <= labels_pred@.len(),
    ensures
        r@.len() == uwi_classes(labels_true@).len(), //# contingency-one-row-per-class
        forall|a: int| 0 <= a < r@.len() ==> (#[trigger] r@[a])@.len() == uwi_classes(labels_pred@).len(), //# contingency-one-column-per-cluster
        forall|a: int, b: int| 0 <= a < r@.len() && 0 <= b < uwi_classes(labels_pred@).len() ==>
            (#[trigger] r@[a]@[b]) as int
                == count_cell(uwi_idx(labels_true@), uwi_idx(labels_pred@), a, b, labels_true@.len() as int), //# contingency-cell-counts-index-pairs
        // the same on the labels: cell (a, b) counts the positions carrying class label a and cluster label b
        eq_sym_trans::<T>() ==> forall|a: int, b: int| 0 <= a < r@.len() && 0 <= b < uwi_classes(labels_pred@).len() ==>
            (#[trigger] r@[a]@[b]) as int
                == count_label_pair(labels_true@, labels_pred@, uwi_classes(labels_true@)[a], uwi_classes(labels_pred@)[b],
                        labels_true@.len() as int), //# contingency-cell-counts-positions-with-that-class-and-cluster-label
        is_unique_with_indices(labels_true@, uwi_classes(labels_true@), uwi_idx(labels_true@)),
        is_unique_with_indices(labels_pred@, uwi_classes(labels_pred@), uwi_idx(labels_pred@)),
//@loop 1
        invariant
            zero_rows(contingency_matrix, VERUS_ghost_iter.index@ as int, clusters@.len() as int), //# contingency-starts-as-rows-of-zeros-one-column-per-cluster
//@loop 2
        invariant
            class_idx@.len() <= cluster_idx@.len(),
            is_unique_with_indices(labels_true@, classes@, class_idx@),
            is_unique_with_indices(labels_pred@, clusters@, cluster_idx@),
            is_table(contingency_matrix@, class_idx@, cluster_idx@, classes@.len() as int, clusters@.len() as int, i as int), //# contingency-table-of-the-positions-seen-so-far
//@loopbody 2
        let ghost m0 = contingency_matrix@;
        proof {
            lemma_count_cell_bound(class_idx@, cluster_idx@, class_idx@[i as int] as int, cluster_idx@[i as int] as int, i as int);
            assert(m0[class_idx@[i as int] as int]@[cluster_idx@[i as int] as int] as int
                == count_cell(class_idx@, cluster_idx@, class_idx@[i as int] as int, cluster_idx@[i as int] as int, i as int));
        }
//@loopend 2
        proof {
            lemma_table_step(m0, contingency_matrix@, class_idx@, cluster_idx@, classes@.len() as int, clusters@.len() as int, i as int);
        }
//@tail
        proof {
            if eq_sym_trans::<T>() {
                assert forall|a: int, b: int| 0 <= a < classes@.len() && 0 <= b < clusters@.len() implies
                    (#[trigger] contingency_matrix@[a]@[b]) as int
                        == count_label_pair(labels_true@, labels_pred@, classes@[a], clusters@[b], labels_true@.len() as int) by {
                    lemma_cell_is_label_pair_count(labels_true@, labels_pred@, classes@, class_idx@, clusters@, cluster_idx@,
                        a, b, labels_true@.len() as int);
                }
            }
        }
//@end
} // verus!
fn main() {}
