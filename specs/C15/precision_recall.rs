//@unit tier=quick canary_includes=yes
//@include prelude/uses.rs
use std::fmt::Display;
verus! {
//@include prelude/realnumber.rs
//@include prelude/basevector.rs
//@include C15/inc/confusion_defs.rs

//@include C15/inc/precision_recall_accept.rs

// rejection variants: with vectors of different length the functions never return normally
pub struct PrecisionR {}
impl PrecisionR {
//@extract src/metrics/precision.rs :: impl Precision :: get_score :: variant=reject
//@spec
        requires
            y_true.vview().len() != y_pred.vview().len(),
        ensures
            false, //# precision-rejects-unequal-lengths
//@enter
        proof { T::ops_total(); }
//@loop 1
            invariant false,
//@end
}

pub struct RecallR {}
impl RecallR {
//@extract src/metrics/recall.rs :: impl Recall :: get_score :: variant=reject
//@spec
        requires
            y_true.vview().len() != y_pred.vview().len(),
        ensures
            false, //# recall-rejects-unequal-lengths
//@enter
        proof { T::ops_total(); }
//@loop 1
            invariant false,
//@end
}
} // verus!
fn main() {}
