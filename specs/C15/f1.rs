//@unit tier=quick
//@include prelude/uses.rs
use std::fmt::Display;
verus! {
//@include prelude/realnumber.rs
//@include prelude/basevector.rs
//@include C15/inc/confusion_defs.rs

// callees: F1::get_score is verified against the contracts of Precision::get_score / Recall::get_score
//@include C15/inc/precision_recall_accept.rs

//@struct src/metrics/f1.rs :: F1
impl<T: RealNumber + Display> F1<T> {
//@extract src/metrics/f1.rs :: impl<T: RealNumber> F1<T> :: get_score :: ret=res
//@spec
        requires
            y_true.vview().len() == y_pred.vview().len(),
            y_true.vview().len() <= i64::MAX,
            binary_labels(y_true.vview()),
            binary_labels(y_pred.vview()),
        ensures
            // F-beta = (1 + beta^2) * (P * R) / (beta^2 * P + R) with P, R the textbook precision and recall
            res == T::one_spec().add_spec(self.beta.mul_spec(self.beta))
                    .mul_spec(precision_spec(y_true.vview(), y_pred.vview()).mul_spec(recall_spec(y_true.vview(), y_pred.vview())))
                    .div_spec(self.beta.mul_spec(self.beta).mul_spec(precision_spec(y_true.vview(), y_pred.vview()))
                        .add_spec(recall_spec(y_true.vview(), y_pred.vview()))), //# f1-is-fbeta-of-precision-and-recall
//@enter
        proof { T::ops_total(); }
//@end
}

// rejection variant: with vectors of different length the function never returns normally
pub struct F1R<T: RealNumber> {
    pub beta: T,
}
impl<T: RealNumber + Display> F1R<T> {
//@extract src/metrics/f1.rs :: impl<T: RealNumber> F1<T> :: get_score :: variant=reject
//@spec
        requires
            y_true.vview().len() != y_pred.vview().len(),
        ensures
            false, //# f1-rejects-unequal-lengths
//@enter
        proof { T::ops_total(); }
//@end
}
} // verus!
fn main() {}
