//@unit tier=quick
//@include prelude/uses.rs
verus! {
//@include prelude/realnumber.rs
//@include prelude/basevector.rs

// x^2 written with T's multiplication
pub open spec fn sq<T: RealNumber>(x: T) -> T { x.mul_spec(x) }

// sum_{i<n} a[i], left fold starting at zero
pub open spec fn sum_seq<T: RealNumber>(a: Seq<T>, n: int) -> T
    decreases n
{
    if n <= 0 { T::zero_spec() } else { sum_seq(a, n - 1).add_spec(a[n - 1]) }
}

// sum_{i<n} (a[i] - b[i])^2, left fold starting at zero
pub open spec fn sum_sq_diff<T: RealNumber>(a: Seq<T>, b: Seq<T>, n: int) -> T
    decreases n
{
    if n <= 0 { T::zero_spec() } else { sum_sq_diff(a, b, n - 1).add_spec(sq(a[n - 1].sub_spec(b[n - 1]))) }
}

// sum_{i<n} |a[i] - b[i]|, left fold starting at zero
pub open spec fn sum_abs_diff<T: RealNumber>(a: Seq<T>, b: Seq<T>, n: int) -> T
    decreases n
{
    if n <= 0 { T::zero_spec() } else { sum_abs_diff(a, b, n - 1).add_spec(a[n - 1].sub_spec(b[n - 1]).abs_spec()) }
}

// sum_{i<n} (a[i] - c)^2, left fold starting at zero
pub open spec fn sum_sq_dev<T: RealNumber>(a: Seq<T>, c: T, n: int) -> T
    decreases n
{
    if n <= 0 { T::zero_spec() } else { sum_sq_dev(a, c, n - 1).add_spec(sq(a[n - 1].sub_spec(c))) }
}

// arithmetic mean of a
pub open spec fn mean_seq<T: RealNumber>(a: Seq<T>) -> T {
    sum_seq(a, a.len() as int).div_spec(T::from_usize_spec(a.len() as usize))
}

pub struct MeanSquareError {}
impl MeanSquareError {
//@extract src/metrics/mean_squared_error.rs :: impl MeanSquareError :: get_score :: ret=r
//@spec
        requires
            y_true.vview().len() == y_pred.vview().len(),
        ensures
            // MSE = (sum_i (y_true[i] - y_pred[i])^2) / n
            r == sum_sq_diff(y_true.vview(), y_pred.vview(), y_true.vview().len() as int)
                    .div_spec(T::from_usize_spec(y_true.vview().len() as usize)), //# mse-is-mean-of-squared-residuals
//@enter
        proof { T::ops_total(); }
//@loop 1
            invariant
                T::obeys_add_assign_spec(), T::obeys_sub_spec(),
                forall|a: T, b: T| #[trigger] a.add_assign_req(b),
                forall|a: T, b: T| #[trigger] a.sub_req(b),
                forall|a: T, b: T| *(#[trigger] a.add_assign_spec(b)) == a.add_spec(b),
                n == y_true.vview().len(),
                n == y_pred.vview().len(),
                rss == sum_sq_diff(y_true.vview(), y_pred.vview(), i as int),
//@end
}

pub struct MeanAbsoluteError {}
impl MeanAbsoluteError {
//@extract src/metrics/mean_absolute_error.rs :: impl MeanAbsoluteError :: get_score :: ret=r
//@spec
        requires
            y_true.vview().len() == y_pred.vview().len(),
        ensures
            // MAE = (sum_i |y_true[i] - y_pred[i]|) / n
            r == sum_abs_diff(y_true.vview(), y_pred.vview(), y_true.vview().len() as int)
                    .div_spec(T::from_usize_spec(y_true.vview().len() as usize)), //# mae-is-mean-of-absolute-residuals
//@enter
        proof { T::ops_total(); }
//@loop 1
            invariant
                T::obeys_add_assign_spec(), T::obeys_sub_spec(),
                forall|a: T, b: T| #[trigger] a.add_assign_req(b),
                forall|a: T, b: T| #[trigger] a.sub_req(b),
                forall|a: T, b: T| *(#[trigger] a.add_assign_spec(b)) == a.add_spec(b),
                n == y_true.vview().len(),
                n == y_pred.vview().len(),
                ras == sum_abs_diff(y_true.vview(), y_pred.vview(), i as int),
//@end
}

pub struct R2 {}
impl R2 {
//@extract src/metrics/r2.rs :: impl R2 :: get_score :: ret=r
//@spec
        requires
            y_true.vview().len() == y_pred.vview().len(),
        ensures
            // R^2 = 1 - sum_i (y_i - f_i)^2 / sum_i (y_i - mean(y))^2,  mean(y) = (sum_i y_i) / n
            r == T::one_spec().sub_spec(
                    sum_sq_diff(y_true.vview(), y_pred.vview(), y_true.vview().len() as int).div_spec(
                        sum_sq_dev(y_true.vview(),
                            sum_seq(y_true.vview(), y_true.vview().len() as int)
                                .div_spec(T::from_usize_spec(y_true.vview().len() as usize)),
                            y_true.vview().len() as int))), //# r2-is-one-minus-ssres-over-sstot
//@enter
        proof { T::ops_total(); }
//@loop 1
            invariant
                T::obeys_add_assign_spec(),
                forall|a: T, b: T| #[trigger] a.add_assign_req(b),
                forall|a: T, b: T| *(#[trigger] a.add_assign_spec(b)) == a.add_spec(b),
                n == y_true.vview().len(),
                n == y_pred.vview().len(),
                mean == sum_seq(y_true.vview(), i as int),
//@loop 2
            invariant
                T::obeys_add_assign_spec(), T::obeys_sub_spec(),
                forall|a: T, b: T| #[trigger] a.add_assign_req(b),
                forall|a: T, b: T| #[trigger] a.sub_req(b),
                forall|a: T, b: T| *(#[trigger] a.add_assign_spec(b)) == a.add_spec(b),
                n == y_true.vview().len(),
                n == y_pred.vview().len(),
                mean == mean_seq(y_true.vview()),
                ss_tot == sum_sq_dev(y_true.vview(), mean, i as int),
                ss_res == sum_sq_diff(y_true.vview(), y_pred.vview(), i as int),
//@end
}

// rejection variants: with vectors of different length the functions never return normally
pub struct MeanSquareErrorR {}
impl MeanSquareErrorR {
//@extract src/metrics/mean_squared_error.rs :: impl MeanSquareError :: get_score :: variant=reject
//@spec
        requires
            y_true.vview().len() != y_pred.vview().len(),
        ensures
            false, //# mse-rejects-unequal-lengths
//@enter
        proof { T::ops_total(); }
//@loop 1
            invariant false,
//@end
}

pub struct MeanAbsoluteErrorR {}
impl MeanAbsoluteErrorR {
//@extract src/metrics/mean_absolute_error.rs :: impl MeanAbsoluteError :: get_score :: variant=reject
//@spec
        requires
            y_true.vview().len() != y_pred.vview().len(),
        ensures
            false, //# mae-rejects-unequal-lengths
//@enter
        proof { T::ops_total(); }
//@loop 1
            invariant false,
//@end
}

pub struct R2R {}
impl R2R {
//@extract src/metrics/r2.rs :: impl R2 :: get_score :: variant=reject
//@spec
        requires
            y_true.vview().len() != y_pred.vview().len(),
        ensures
            false, //# r2-rejects-unequal-lengths
//@enter
        proof { T::ops_total(); }
//@loop 1
            invariant false,
//@loop 2
            invariant false,
//@end
}
} // verus!
fn main() {}
