// C06/inc/reg_sample_defs.rs -- the sampler is an associated fn of the forest type; only the type's name matters here.
//@struct src/ensemble/random_forest_regressor.rs :: RandomForestRegressorParameters
pub struct DecisionTreeRegressor<T: RealNumber> { _t: Option<T> }   // placeholder for the field type (no method of it is used in this unit)
//@struct src/ensemble/random_forest_regressor.rs :: RandomForestRegressor

//@include C06/inc/total.rs
