// ---------------------------------------------------------------------------------------------
// C06/inc/rng.rs -- stand-in for rand::Rng as used by the bootstrap samplers: `rng.gen_range(0..n)` with usize bounds.
// /repo: rand 0.8 `fn gen_range<T, R>(&mut self, range: R) -> T where T: SampleUniform, R: SampleRange<T>` (external crate: no
// //@checkdecl possible); here monomorphic in (usize, Range<usize>), the only instantiation in the two forest files.
// Every sequence of draws is covered: nothing is assumed about the values except that they lie in the half-open range.
// ---------------------------------------------------------------------------------------------
pub trait Rng {
    // ASSUME[A-RNG-RANGE] gen_range(a..b) panics on an empty range (stated as `requires`) and otherwise returns some value in [a, b)
    fn gen_range(&mut self, range: Range<usize>) -> (r: usize)
        requires range.start < range.end,
        ensures range.start <= r < range.end;
}
