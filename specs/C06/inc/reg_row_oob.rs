// C06/inc/reg_row_oob.rs -- RandomForestRegressor::predict_for_row_oob under contract (shared by regressor_predict and regressor_oob_defined;
// to be included inside `impl<T: RealNumber> RandomForestRegressor<T> { .. }`)
//@extract src/ensemble/random_forest_regressor.rs :: impl<T: RealNumber> RandomForestRegressor<T> :: predict_for_row_oob :: ret=r
//@spec
        requires
            self.wf_oob(x.nrows_spec()), x.mwf(), row < x.nrows_spec(),
        ensures
            // sum over exactly the trees whose bootstrap sample did not contain the row, divided by the number of those trees
            r == self.oob_mean(x, row), //# oob-row-prediction-is-sum-of-exactly-the-oob-trees-divided-by-their-number
//@enter
        proof { T::ops_total(); }
//@loop 1
            invariant
                self.wf_oob(x.nrows_spec()), x.mwf(), row < x.nrows_spec(),
                T::obeys_add_assign_spec(), forall|a: T, b: T| #[trigger] a.add_assign_req(b),
                forall|a: T, b: T| *(#[trigger] a.add_assign_spec(b)) == a.add_spec(b),
                VERUS_ghost_iter.index@ <= self.ntrees(),
                VERUS_ghost_iter.seq().len() == self.ntrees(),
                forall|t: int| 0 <= t < self.ntrees() ==> *(#[trigger] VERUS_ghost_iter.seq()[t]).0 == self.trees@[t]
                    && *VERUS_ghost_iter.seq()[t].1 == self.masks()[t], //# inv-tree-t-is-paired-with-mask-t
                result == self.oob_sum_to(x, row, VERUS_ghost_iter.index@ as int), //# inv-running-sum-is-fold-over-oob-trees-seen
                n_trees == count_range(self.is_oob(row), VERUS_ghost_iter.index@ as int), //# inv-counter-is-number-of-oob-trees-seen
//@loopbody 1
            proof {
                let a = VERUS_ghost_iter.index@ as int;
                assert(tree == VERUS_ghost_iter.seq()[a].0 && samples == VERUS_ghost_iter.seq()[a].1);
                assert(*tree == self.trees@[a] && *samples == self.masks()[a]);
                lemma_count_range_bounds(self.is_oob(row), a);
            }
//@end
