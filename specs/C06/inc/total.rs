// C06/inc/total.rs -- sum of the first m per-row counts, and the effect of one more draw.  Pure lemmas.
pub open spec fn total(s: Seq<usize>, m: int) -> int
    decreases m
{
    if m <= 0 { 0 } else { total(s, m - 1) + s[m - 1] }
}
// every count is at most the total
pub proof fn lemma_total_ge(s: Seq<usize>, j: int, m: int)
    requires 0 <= j < m <= s.len(),
    ensures s[j] <= total(s, m), 0 <= total(s, j),
    decreases m
{
    lemma_total_nonneg(s, j);
    if j < m - 1 { lemma_total_ge(s, j, m - 1); } else { lemma_total_nonneg(s, m - 1); }
}
pub proof fn lemma_total_nonneg(s: Seq<usize>, m: int)
    ensures 0 <= total(s, m),
    decreases m
{
    if m > 0 { lemma_total_nonneg(s, m - 1); }
}
// entries < m unchanged: same total
pub proof fn lemma_total_same(a: Seq<usize>, b: Seq<usize>, m: int)
    requires 0 <= m <= a.len(), m <= b.len(), forall|i: int| 0 <= i < m ==> a[i] == b[i],
    ensures total(a, m) == total(b, m),
    decreases m
{
    if m > 0 { lemma_total_same(a, b, m - 1); }
}
// one entry incremented, all others unchanged: the total grows by one
pub proof fn lemma_total_bump(a: Seq<usize>, b: Seq<usize>, j: int, m: int)
    requires
        0 <= j < m <= a.len(), a.len() == b.len(),
        b[j] == a[j] + 1,
        forall|i: int| 0 <= i < a.len() && i != j ==> a[i] == b[i],
    ensures total(b, m) == total(a, m) + 1,
    decreases m
{
    if j == m - 1 { lemma_total_same(a, b, m - 1); } else { lemma_total_bump(a, b, j, m - 1); }
}
// all counts zero: total zero
pub proof fn lemma_total_zero(s: Seq<usize>, m: int)
    requires 0 <= m <= s.len(), forall|i: int| 0 <= i < m ==> s[i] == 0,
    ensures total(s, m) == 0,
    decreases m
{
    if m > 0 { lemma_total_zero(s, m - 1); }
}
