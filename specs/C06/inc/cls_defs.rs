// ---------------------------------------------------------------------------------------------
// C06/inc/cls_defs.rs -- RandomForestClassifier, its member-tree stand-in, the vote counts and the model invariant.
// Needs realnumber.rs, matrix_abs2.rs, enum_count.rs (count_range).
// ---------------------------------------------------------------------------------------------
//@struct src/tree/decision_tree_classifier.rs :: SplitCriterion
//@struct src/ensemble/random_forest_classifier.rs :: RandomForestClassifierParameters
// (the opaque member-tree type below uses T in a position Verus cannot see: T must not occur recursively)
#[verifier::reject_recursive_types(T)]
//@struct src/ensemble/random_forest_classifier.rs :: RandomForestClassifier

// Member tree.  DecisionTreeClassifier::predict_for_row walks the node list through a std LinkedList queue (outside the Verus
// subset), so the tree is opaque here.
// A member tree's prediction is an arbitrary but FIXED function tree_pred(tree, x, row) of the tree, the matrix and the row index
// (predict_for_row takes &self, reads only nodes / x and has no other state), and it is a class index below the tree's own class
// count tree_k (every node output is `which_max` of a count vector of length num_classes = k >= 2, see fit_weak_learner /
// find_best_cutoff; true for fitted trees, not for arbitrary deserialised ones).
// ASSUME[A-TREE-PREDICT-ABS] opaque member tree
#[verifier::external_body]
#[verifier::reject_recursive_types(T)]
pub struct DecisionTreeClassifier<T: RealNumber> { _opaque: core::marker::PhantomData<T> }

impl<T: RealNumber> DecisionTreeClassifier<T> {
    // ASSUME[A-TREE-PREDICT-ABS] the tree's field num_classes (number of distinct labels of the y it was fitted on)
    pub uninterp spec fn tree_k(&self) -> int;
    // ASSUME[A-TREE-PREDICT-ABS] the class index the tree predicts for row `row` of x
    pub uninterp spec fn tree_pred<M: Matrix<T>>(&self, x: &M, row: usize) -> usize;

//@checkdecl src/tree/decision_tree_classifier.rs :: impl<T: RealNumber> DecisionTreeClassifier<T> :: predict_for_row :: fn predict_for_row<M: Matrix<T>>(&self, x: &M, row: usize) -> usize
    // ASSUME[A-TREE-PREDICT-ABS] (the real body calls x.get(row, split_feature): the row must exist)
    #[verifier::external_body]
    pub fn predict_for_row<M: Matrix<T>>(&self, x: &M, row: usize) -> (r: usize)
        requires x.mwf(), row < x.nrows_spec(),
        ensures r == self.tree_pred(x, row), r < self.tree_k(),
    { unimplemented!() }
}

impl<T: RealNumber> RandomForestClassifier<T> {
    spec fn k(&self) -> int { self.classes@.len() as int }
    spec fn ntrees(&self) -> int { self.trees@.len() as int }

    // Model invariant needed by predict.  `fit` is responsible for all of it: classes = y.unique() and every member tree is
    // fitted on the same y, so tree_k == classes.len(); fit_weak_learner refuses k < 2, so a forest with >= 1 tree has k >= 2
    // (k >= 1 is what `which_max` needs: it reads result[0]).
    spec fn wf(&self) -> bool {
        &&& self.k() >= 1
        &&& forall|t: int| 0 <= t < self.ntrees() ==> (#[trigger] self.trees@[t]).tree_k() == self.k()
    }
    // Additional invariant needed by predict_oob: the in-bag masks were kept (keep_samples), one mask per tree, in tree order
    // (`fit` pushes mask and tree in the same loop iteration), each over the n training rows; there is at least one tree
    // (predict_oob reads samples[0]); the number of trees fits the i32 / usize counters.
    spec fn wf_oob(&self, n: int) -> bool {
        &&& self.wf()
        &&& self.samples is Some
        &&& self.ntrees() >= 1
        &&& self.masks().len() == self.ntrees()
        &&& forall|t: int| 0 <= t < self.ntrees() ==> (#[trigger] self.masks()[t])@.len() == n
    }
    spec fn masks(&self) -> Seq<Vec<bool>> { self.samples->Some_0@ }

    // tree t votes for class c on row `row` of x
    spec fn votes_for<M: Matrix<T>>(&self, x: &M, row: usize, c: int) -> spec_fn(int) -> bool {
        |t: int| self.trees@[t].tree_pred(x, row) == c
    }
    // tree t is out-of-bag for training row `row`: its bootstrap sample did not contain the row
    spec fn is_oob(&self, row: usize) -> spec_fn(int) -> bool {
        |t: int| !self.masks()[t]@[row as int]
    }
    spec fn oob_votes_for<M: Matrix<T>>(&self, x: &M, row: usize, c: int) -> spec_fn(int) -> bool {
        |t: int| self.is_oob(row)(t) && self.votes_for(x, row, c)(t)
    }
    // votes(x, row, c) = #{ t < n_trees : tree t predicts class c for the row }
    spec fn votes<M: Matrix<T>>(&self, x: &M, row: usize, c: int) -> int {
        count_range(self.votes_for(x, row, c), self.ntrees())
    }
    // oob_votes(x, row, c) = #{ t < n_trees : row not in tree t's bootstrap sample, tree t predicts class c for the row }
    spec fn oob_votes<M: Matrix<T>>(&self, x: &M, row: usize, c: int) -> int {
        count_range(self.oob_votes_for(x, row, c), self.ntrees())
    }
    // w is a plurality class (no class has more votes); ties go to the smallest class index
    spec fn plurality<M: Matrix<T>>(&self, x: &M, row: usize, w: int) -> bool {
        &&& 0 <= w < self.k()
        &&& forall|c: int| 0 <= c < self.k() ==> #[trigger] self.votes(x, row, c) <= self.votes(x, row, w)
        &&& forall|c: int| 0 <= c < w ==> #[trigger] self.votes(x, row, c) < self.votes(x, row, w)
    }
    spec fn oob_plurality<M: Matrix<T>>(&self, x: &M, row: usize, w: int) -> bool {
        &&& 0 <= w < self.k()
        &&& forall|c: int| 0 <= c < self.k() ==> #[trigger] self.oob_votes(x, row, c) <= self.oob_votes(x, row, w)
        &&& forall|c: int| 0 <= c < w ==> #[trigger] self.oob_votes(x, row, c) < self.oob_votes(x, row, w)
    }
    // v is the ORIGINAL LABEL VALUE classes[w] of the plurality class w
    spec fn plurality_label<M: Matrix<T>>(&self, x: &M, row: usize, v: T) -> bool {
        exists|w: int| #[trigger] self.plurality(x, row, w) && v == self.classes@[w]
    }
    spec fn oob_plurality_label<M: Matrix<T>>(&self, x: &M, row: usize, v: T) -> bool {
        exists|w: int| #[trigger] self.oob_plurality(x, row, w) && v == self.classes@[w]
    }
}
