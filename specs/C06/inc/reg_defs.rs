// ---------------------------------------------------------------------------------------------
// C06/inc/reg_defs.rs -- RandomForestRegressor, its member-tree stand-in, the fold sums and the model invariant.
// Needs realnumber.rs, matrix_abs2.rs, enum_count.rs (count_range).
// ---------------------------------------------------------------------------------------------
//@struct src/ensemble/random_forest_regressor.rs :: RandomForestRegressorParameters
// (the opaque member-tree type below uses T in a position Verus cannot see: T must not occur recursively)
#[verifier::reject_recursive_types(T)]
//@struct src/ensemble/random_forest_regressor.rs :: RandomForestRegressor

// Member tree.  DecisionTreeRegressor::predict_for_row walks the node list through a std LinkedList queue (outside the Verus
// subset), so the tree is opaque here: its prediction is an arbitrary but FIXED function tree_pred(tree, x, row) of the tree, the
// matrix and the row index (predict_for_row takes &self, reads only nodes / x and has no other state).  Nothing is assumed about
// the value (in particular not that it lies within the range of the training targets).
// ASSUME[A-TREE-PREDICT-ABS] opaque member tree
#[verifier::external_body]
#[verifier::reject_recursive_types(T)]
pub struct DecisionTreeRegressor<T: RealNumber> { _opaque: core::marker::PhantomData<T> }

impl<T: RealNumber> DecisionTreeRegressor<T> {
    // ASSUME[A-TREE-PREDICT-ABS] the value the tree predicts for row `row` of x
    pub uninterp spec fn tree_pred<M: Matrix<T>>(&self, x: &M, row: usize) -> T;

//@checkdecl src/tree/decision_tree_regressor.rs :: impl<T: RealNumber> DecisionTreeRegressor<T> :: predict_for_row :: fn predict_for_row<M: Matrix<T>>(&self, x: &M, row: usize) -> T
    // ASSUME[A-TREE-PREDICT-ABS] (the real body calls x.get(row, split_feature): the row must exist)
    #[verifier::external_body]
    pub fn predict_for_row<M: Matrix<T>>(&self, x: &M, row: usize) -> (r: T)
        requires x.mwf(), row < x.nrows_spec(),
        ensures r == self.tree_pred(x, row),
    { unimplemented!() }
}

impl<T: RealNumber> RandomForestRegressor<T> {
    spec fn ntrees(&self) -> int { self.trees@.len() as int }
    spec fn masks(&self) -> Seq<Vec<bool>> { self.samples->Some_0@ }

    // Invariant needed by predict_oob; `fit` is responsible for all of it: the in-bag masks were kept (keep_samples), one mask
    // per tree, in tree order (`fit` pushes mask and tree in the same loop iteration), each over the n training rows; there is
    // at least one tree (predict_oob reads samples[0]); the number of trees fits the i32 counter of predict_for_row_oob
    // (`let mut n_trees = 0;` is only ever passed to the generic NumCast `T::from`, so it defaults to i32).
    spec fn wf_oob(&self, n: int) -> bool {
        &&& self.samples is Some
        &&& 1 <= self.ntrees() <= i32::MAX
        &&& self.masks().len() == self.ntrees()
        &&& forall|t: int| 0 <= t < self.ntrees() ==> (#[trigger] self.masks()[t])@.len() == n
    }
    // tree t is out-of-bag for training row `row`: its bootstrap sample did not contain the row
    spec fn is_oob(&self, row: usize) -> spec_fn(int) -> bool {
        |t: int| !self.masks()[t]@[row as int]
    }
    // left fold (in tree order, from T::zero()) of the first m member predictions for the row:  ((0 + p_0) + p_1) + ...
    spec fn sum_to<M: Matrix<T>>(&self, x: &M, row: usize, m: int) -> T
        decreases m
    {
        if m <= 0 { T::zero_spec() } else { self.sum_to(x, row, m - 1).add_spec(self.trees@[m - 1].tree_pred(x, row)) }
    }
    // the same fold over the out-of-bag trees only (in-bag trees are skipped)
    spec fn oob_sum_to<M: Matrix<T>>(&self, x: &M, row: usize, m: int) -> T
        decreases m
    {
        if m <= 0 { T::zero_spec() }
        else if self.is_oob(row)(m - 1) { self.oob_sum_to(x, row, m - 1).add_spec(self.trees@[m - 1].tree_pred(x, row)) }
        else { self.oob_sum_to(x, row, m - 1) }
    }
    // number of trees whose bootstrap sample did not contain the row
    spec fn oob_count(&self, row: usize) -> int { count_range(self.is_oob(row), self.ntrees()) }

    // arithmetic mean of ALL member predictions: fold sum / T::from(n_trees)   (T's division and conversion, A-ABS)
    spec fn mean<M: Matrix<T>>(&self, x: &M, row: usize) -> T {
        self.sum_to(x, row, self.ntrees()).div_spec(T::from_spec::<usize>(self.ntrees() as usize))
    }
    // arithmetic mean of the out-of-bag member predictions: fold sum over the OOB trees / T::from(their number)
    spec fn oob_mean<M: Matrix<T>>(&self, x: &M, row: usize) -> T {
        self.oob_sum_to(x, row, self.ntrees()).div_spec(T::from_spec::<i32>(self.oob_count(row) as i32))
    }
}
