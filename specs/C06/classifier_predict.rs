//@unit tier=quick
//@include prelude/uses.rs
verus! {
//@include prelude/realnumber.rs
//@include prelude/basevector.rs
//@include prelude/matrix_abs2.rs
//@include prelude/error.rs
//@include prelude/which_max.rs
//@include prelude/enum_count.rs
//@include C06/inc/cls_defs.rs

// C06 (classifier, aggregation): "A forest's prediction for a row is a plurality class [...] of its member trees' predictions for
// that row, and the out-of-bag prediction for training row i aggregates, in the same way, only the trees whose bootstrap sample did
// not contain row i.  Classifier predictions are original label values."
impl<T: RealNumber> RandomForestClassifier<T> {
//@extract src/ensemble/random_forest_classifier.rs :: impl<T: RealNumber> RandomForestClassifier<T> :: predict_for_row :: ret=w
//@spec
        requires
            self.wf(), x.mwf(), row < x.nrows_spec(),
        ensures
            // the FIRST class index with a maximal number of member-tree votes
            self.plurality(x, row, w as int), //# row-prediction-is-first-plurality-class-of-all-trees
//@enter
        proof { assert(self.trees.len() == self.trees@.len()); }    // a Vec's length is a usize
//@loop 1
            invariant
                self.wf(), x.mwf(), row < x.nrows_spec(),
                result@.len() == self.k(),
                VERUS_ghost_iter.index@ <= self.ntrees(),
                VERUS_ghost_iter.seq().len() == self.ntrees(), self.ntrees() <= usize::MAX, //# inv-the-loop-visits-every-tree
                forall|c: int| 0 <= c < self.k() ==> #[trigger] result@[c]
                    == count_range(self.votes_for(x, row, c), VERUS_ghost_iter.index@ as int), //# inv-tally-counts-votes-of-trees-seen
                // all trees consumed: the tally is the vote count
                VERUS_ghost_iter.index@ == VERUS_ghost_iter.seq().len()
                    ==> forall|c: int| #![trigger result@[c]] #![trigger self.votes(x, row, c)] 0 <= c < self.k() ==> result@[c] == self.votes(x, row, c), //# inv-after-the-last-tree-the-tally-is-the-vote-count
//@loopbody 1
            proof {
                let a = VERUS_ghost_iter.index@ as int;
                assert(*tree == self.trees@[a]);
                assert forall|c: int| 0 <= c < self.k() implies 0 <= #[trigger] count_range(self.votes_for(x, row, c), a) <= a by {
                    lemma_count_range_bounds(self.votes_for(x, row, c), a);
                }
            }
//@end

//@extract src/ensemble/random_forest_classifier.rs :: impl<T: RealNumber> RandomForestClassifier<T> :: predict_for_row_oob :: ret=w
//@spec
        requires
            self.wf_oob(x.nrows_spec()), x.mwf(), row < x.nrows_spec(),
        ensures
            // the FIRST class index with a maximal number of votes among the trees whose bootstrap sample did not contain the row
            self.oob_plurality(x, row, w as int), //# oob-row-prediction-is-first-plurality-class-of-exactly-the-oob-trees
//@enter
        proof { assert(self.trees.len() == self.trees@.len()); }    // a Vec's length is a usize
//@loop 1
            invariant
                self.wf_oob(x.nrows_spec()), x.mwf(), row < x.nrows_spec(),
                result@.len() == self.k(),
                VERUS_ghost_iter.index@ <= self.ntrees(),
                VERUS_ghost_iter.seq().len() == self.ntrees(), self.ntrees() <= usize::MAX,
                forall|t: int| 0 <= t < self.ntrees() ==> *(#[trigger] VERUS_ghost_iter.seq()[t]).0 == self.trees@[t]
                    && *VERUS_ghost_iter.seq()[t].1 == self.masks()[t], //# inv-tree-t-is-paired-with-mask-t
                forall|c: int| 0 <= c < self.k() ==> #[trigger] result@[c]
                    == count_range(self.oob_votes_for(x, row, c), VERUS_ghost_iter.index@ as int), //# inv-tally-counts-votes-of-oob-trees-seen
                // all trees consumed: the tally is the out-of-bag vote count
                VERUS_ghost_iter.index@ == VERUS_ghost_iter.seq().len()
                    ==> forall|c: int| #![trigger result@[c]] #![trigger self.oob_votes(x, row, c)] 0 <= c < self.k() ==> result@[c] == self.oob_votes(x, row, c), //# inv-after-the-last-tree-the-tally-is-the-oob-vote-count
//@loopbody 1
            proof {
                let a = VERUS_ghost_iter.index@ as int;
                assert(tree == VERUS_ghost_iter.seq()[a].0 && samples == VERUS_ghost_iter.seq()[a].1);
                assert(*tree == self.trees@[a] && *samples == self.masks()[a]);
                assert forall|c: int| 0 <= c < self.k() implies 0 <= #[trigger] count_range(self.oob_votes_for(x, row, c), a) <= a by {
                    lemma_count_range_bounds(self.oob_votes_for(x, row, c), a);
                }
            }
//@end

//@extract src/ensemble/random_forest_classifier.rs :: impl<T: RealNumber> RandomForestClassifier<T> :: predict :: ret=r
//@spec
        requires
            self.wf(), x.mwf(),
        ensures
            r is Ok,
            r->Ok_0.vview().len() == x.nrows_spec(), //# predict-one-label-per-row
            // every row gets the original label value of its plurality class
            forall|i: int| 0 <= i < x.nrows_spec()
                ==> self.plurality_label(x, i as usize, #[trigger] r->Ok_0.vview()[i]), //# predict-is-original-label-of-plurality-class
//@loop 1
            invariant
                self.wf(), x.mwf(), n == x.nrows_spec(),
                result.mwf(), result.nrows_spec() == 1, result.ncols_spec() == n,
                forall|a: int| 0 <= a < i ==> self.plurality_label(x, a as usize, #[trigger] result.at(0, a)), //# inv-rows-done-carry-label-of-plurality-class
//@end

//@extract src/ensemble/random_forest_classifier.rs :: impl<T: RealNumber> RandomForestClassifier<T> :: predict_oob :: ret=r
//@spec
        requires
            self.wf(), x.mwf(),
            // when masks were kept: the model invariant for out-of-bag prediction over the model's own training-row count
            self.samples is Some ==> exists|n0: int| self.wf_oob(n0),
        ensures
            // refused without kept masks or when x has another number of rows than the training set
            r is Ok <==> self.samples is Some && self.masks()[0]@.len() == x.nrows_spec(), //# predict-oob-refuses-missing-masks-or-other-row-count
            r is Ok ==> r->Ok_0.vview().len() == x.nrows_spec(), //# predict-oob-one-label-per-row
            r is Ok ==> forall|i: int| 0 <= i < x.nrows_spec()
                ==> self.oob_plurality_label(x, i as usize, #[trigger] r->Ok_0.vview()[i]), //# predict-oob-is-original-label-of-oob-plurality-class
//@enter
        proof {
            if self.samples is Some {
                let n0 = choose|n0: int| self.wf_oob(n0);
                assert(self.masks()[0]@.len() == n0);
            }
        }
//@loop 1
            invariant
                self.wf_oob(x.nrows_spec()), x.mwf(), n == x.nrows_spec(),
                result.mwf(), result.nrows_spec() == 1, result.ncols_spec() == n,
                forall|a: int| 0 <= a < i ==> self.oob_plurality_label(x, a as usize, #[trigger] result.at(0, a)), //# inv-rows-done-carry-label-of-oob-plurality-class
//@end
}
} // verus!
fn main() {}
