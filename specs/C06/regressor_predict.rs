//@unit tier=quick
//@include prelude/uses.rs
verus! {
//@include prelude/realnumber.rs
//@include prelude/basevector.rs
//@include prelude/matrix_abs2.rs
//@include prelude/error.rs
//@include prelude/enum_count.rs
//@include C06/inc/reg_defs.rs

// C06 (regressor, aggregation): "A forest's prediction for a row is [...] the arithmetic mean of its member trees' predictions for
// that row, and the out-of-bag prediction for training row i aggregates, in the same way, only the trees whose bootstrap sample did
// not contain row i."  Arithmetic on T is uninterpreted (A-ABS): "mean" = left-fold sum in tree order divided by T::from(count).
impl<T: RealNumber> RandomForestRegressor<T> {
//@extract src/ensemble/random_forest_regressor.rs :: impl<T: RealNumber> RandomForestRegressor<T> :: predict_for_row :: ret=r
//@spec
        requires
            x.mwf(), row < x.nrows_spec(),
        ensures
            r == self.mean(x, row), //# row-prediction-is-sum-of-all-trees-divided-by-n-trees
//@enter
        proof { T::ops_total(); }
//@loop 1
            invariant
                x.mwf(), row < x.nrows_spec(),
                T::obeys_add_assign_spec(), forall|a: T, b: T| #[trigger] a.add_assign_req(b),
                forall|a: T, b: T| *(#[trigger] a.add_assign_spec(b)) == a.add_spec(b),
                VERUS_ghost_iter.index@ <= self.ntrees(),
                VERUS_ghost_iter.seq().len() == self.ntrees(),
                result == self.sum_to(x, row, VERUS_ghost_iter.index@ as int), //# inv-running-sum-is-fold-over-trees-seen
//@loopbody 1
            proof {
                assert(*tree == self.trees@[VERUS_ghost_iter.index@ as int]);
            }
//@end

//@include C06/inc/reg_row_oob.rs

//@extract src/ensemble/random_forest_regressor.rs :: impl<T: RealNumber> RandomForestRegressor<T> :: predict :: ret=r
//@spec
        requires
            x.mwf(),
        ensures
            r is Ok,
            r->Ok_0.vview().len() == x.nrows_spec(), //# predict-one-value-per-row
            forall|i: int| 0 <= i < x.nrows_spec() ==> #[trigger] r->Ok_0.vview()[i] == self.mean(x, i as usize), //# predict-is-mean-of-member-predictions
//@loop 1
            invariant
                x.mwf(), n == x.nrows_spec(),
                result.mwf(), result.nrows_spec() == 1, result.ncols_spec() == n,
                forall|a: int| 0 <= a < i ==> #[trigger] result.at(0, a) == self.mean(x, a as usize), //# inv-rows-done-carry-the-mean
//@end

//@extract src/ensemble/random_forest_regressor.rs :: impl<T: RealNumber> RandomForestRegressor<T> :: predict_oob :: ret=r
//@spec
        requires
            x.mwf(),
            // when masks were kept: the model invariant for out-of-bag prediction over the model's own training-row count
            self.samples is Some ==> exists|n0: int| self.wf_oob(n0),
        ensures
            // refused without kept masks or when x has another number of rows than the training set
            r is Ok <==> self.samples is Some && self.masks()[0]@.len() == x.nrows_spec(), //# predict-oob-refuses-missing-masks-or-other-row-count
            r is Ok ==> r->Ok_0.vview().len() == x.nrows_spec(), //# predict-oob-one-value-per-row
            r is Ok ==> forall|i: int| 0 <= i < x.nrows_spec()
                ==> #[trigger] r->Ok_0.vview()[i] == self.oob_mean(x, i as usize), //# predict-oob-is-mean-of-oob-member-predictions
//@enter
        proof {
            if self.samples is Some {
                let n0 = choose|n0: int| self.wf_oob(n0);
                assert(self.masks()[0]@.len() == n0);
            }
        }
//@loop 1
            invariant
                self.wf_oob(x.nrows_spec()), x.mwf(), n == x.nrows_spec(),
                result.mwf(), result.nrows_spec() == 1, result.ncols_spec() == n,
                forall|a: int| 0 <= a < i ==> #[trigger] result.at(0, a) == self.oob_mean(x, a as usize), //# inv-rows-done-carry-the-oob-mean
//@end
}
} // verus!
fn main() {}
