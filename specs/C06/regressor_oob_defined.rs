//@unit tier=quick
//@include prelude/uses.rs
verus! {
//@include prelude/realnumber.rs
//@include prelude/basevector.rs
//@include prelude/matrix_abs2.rs
//@include prelude/error.rs
//@include prelude/enum_count.rs
//@include C06/inc/reg_defs.rs

// C06 (regressor, out-of-bag): "the out-of-bag prediction for training row i aggregates [as the arithmetic mean] only the trees whose
// bootstrap sample did not contain row i" and "regressor predictions lie within the range of the training targets".  A mean needs at
// least one member: an answer of predict_oob must not contain a value for a row that NO tree left out of its bootstrap sample.
// FINDING: the code divides the empty sum by T::from(0) (0/0 = NaN for f32/f64) for such a row (`// TODO: What to do if there are
// no oob trees?` in predict_for_row_oob); see property.json -> defect.  This unit holds exactly that clause and FAILS on the unchanged tree.
impl<T: RealNumber> RandomForestRegressor<T> {
//@include C06/inc/reg_row_oob.rs

//@extract src/ensemble/random_forest_regressor.rs :: impl<T: RealNumber> RandomForestRegressor<T> :: predict_oob :: ret=r
//@spec
        requires
            x.mwf(),
            self.samples is Some ==> exists|n0: int| self.wf_oob(n0),
        ensures
            r is Ok ==> forall|i: int| 0 <= i < x.nrows_spec() ==> #[trigger] self.oob_count(i as usize) >= 1, //# predict-oob-answers-only-rows-that-have-an-oob-tree
//@enter
        proof {
            if self.samples is Some {
                let n0 = choose|n0: int| self.wf_oob(n0);
                assert(self.masks()[0]@.len() == n0);
            }
        }
//@loop 1
            invariant
                self.wf_oob(x.nrows_spec()), x.mwf(), n == x.nrows_spec(),
                result.mwf(), result.nrows_spec() == 1, result.ncols_spec() == n,
                forall|a: int| 0 <= a < i ==> #[trigger] self.oob_count(a as usize) >= 1, //# predict-oob-answers-only-rows-that-have-an-oob-tree
//@end
}
} // verus!
fn main() {}
