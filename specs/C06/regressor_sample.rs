//@unit tier=quick
//@include prelude/uses.rs
verus! {
//@include prelude/realnumber.rs
//@include C06/inc/rng.rs
//@include C06/inc/reg_sample_defs.rs

// C06 (regressor, bootstrap): sample_with_replacement(nrows, rng) returns per-row multiplicities of a sample of size nrows drawn
// from the nrows rows: one count per row, the counts sum to nrows.  (The mask kept by `fit` is `count != 0`.)
impl<T: RealNumber> RandomForestRegressor<T> {
//@extract src/ensemble/random_forest_regressor.rs :: impl<T: RealNumber> RandomForestRegressor<T> :: sample_with_replacement :: ret=r
//@spec
        ensures
            r@.len() == nrows, //# sample-has-one-count-per-row
            total(r@, nrows as int) == nrows, //# sample-counts-sum-to-nrows
//@loop 1
            invariant
                samples@.len() == nrows,
                forall|j: int| 0 <= j < nrows ==> #[trigger] samples@[j] <= VERUS_ghost_iter.index@,   // (no count overflows)
                // (before the first draw the total is 0 because all counts are: the induction is done by lemma_total_zero below)
                (VERUS_ghost_iter.index@ == 0 && forall|j: int| 0 <= j < nrows ==> #[trigger] samples@[j] == 0)
                    || total(samples@, nrows as int) == VERUS_ghost_iter.index@, //# inv-counts-sum-to-number-of-draws
                VERUS_ghost_iter.index@ <= nrows,
//@loopbody 1
            let ghost before = samples@;
            proof { if VERUS_ghost_iter.index@ == 0 { lemma_total_zero(samples@, nrows as int); } }
//@loopend 1
            proof {
                lemma_total_bump(before, samples@, xi as int, nrows as int);
            }
//@tail
        proof { if nrows == 0 { lemma_total_zero(samples@, nrows as int); } }
//@end
}
} // verus!
fn main() {}
